(* Locks.v — the three process-wide caches of savefile-abi behind their mutexes (savefile-abi/src/lib.rs 952-989),
   the lock scopes of get_symbol_for (1360-1405) and new_internal (1517-1627), and threads creating connections
   concurrently. A scheduler picks any thread whose next action is enabled; std::sync::Mutex semantics:
   a panic while holding a lock poisons it, and Guard::lock's `.lock().unwrap()` panics on a poisoned lock.
   Definitions only. *)
From SF Require Import Bytes.
Open Scope N_scope.

Inductive lk := LEntry | LLibrary | LTemplates.
Definition lk_eqb (a b : lk) : bool :=
  match a, b with LEntry, LEntry | LLibrary, LLibrary | LTemplates, LTemplates => true | _, _ => false end.
Definition lk_index (l : lk) : N := match l with LEntry => 0 | LLibrary => 1 | LTemplates => 2 end.

(* the outcome of negotiating a template for a key (TypeId, entry point): a function of the key alone *)
Inductive nres := NOk (t : N) | NErr (e : N) | NPanic.
(* the outcome of an operation as seen by the thread *)
Inductive ores := ROk (t : N) | RErr (e : N) | RPanic.

Inductive op :=
| OCreate (key : N)                       (* from_boxed_trait / from_raw / from_raw_packaged: new_internal *)
| OLoad (file trait : N).                 (* load_shared_library: get_symbol_for, then new_internal *)

Inductive action :=
| AAcq (l : lk)
| ARel (l : lk)
| ACritEntry (file trait : N)             (* body of get_symbol_for under both locks *)
| ACritCreate (key : option N).           (* body of new_internal under the templates lock; None: key from the entry just resolved *)

(* the lock acquisition sequences, as the translator extracts them from the two functions *)
Definition SEQ_GET_SYMBOL : list lk := [LEntry; LLibrary].
Definition SEQ_NEW_INTERNAL : list lk := [LTemplates].

(* guards are dropped in reverse order of declaration at the end of the function *)
Definition prog_create (key : option N) : list action :=
  map AAcq SEQ_NEW_INTERNAL ++ [ACritCreate key] ++ map ARel (rev SEQ_NEW_INTERNAL).
Definition prog_of (o : op) : list action :=
  match o with
  | OCreate k => prog_create (Some k)
  | OLoad f t => map AAcq SEQ_GET_SYMBOL ++ [ACritEntry f t] ++ map ARel (rev SEQ_GET_SYMBOL) ++ prog_create None
  end.

Section Sem.
Variable negotiate : N -> nres.                 (* Interrogate* + analyze_and_create for a key *)
Variable resolve : N -> N -> option N.          (* dlopen + dlsym: the key for (file, trait), None = load error *)

Record thread := TH {
  t_cur : list action;            (* rest of the current operation *)
  t_op : option op;               (* the operation being executed *)
  t_ops : list op;                (* operations still to start *)
  t_held : list lk;
  t_entry : option N;             (* the entry resolved by the current OLoad *)
  t_results : list ores           (* results so far, latest first *)
}.

Record gstate := GS {
  g_owner : list (lk * N);        (* held locks and their owners (thread index) *)
  g_poison : list lk;
  g_templates : list (N * N);     (* key -> template *)
  g_entries : list (N * N * N);   (* (file, trait) -> key *)
  g_threads : list thread;
  g_log : list (N * op * ores)    (* completed operations, latest first: (thread, op, result) *)
}.

Definition owner_of (g : gstate) (l : lk) : option N :=
  match find (fun p => lk_eqb (fst p) l) (g_owner g) with Some p => Some (snd p) | None => None end.
Definition poisoned (g : gstate) (l : lk) : bool := existsb (lk_eqb l) (g_poison g).
Definition lookup_t (k : N) (m : list (N * N)) : option N :=
  match find (fun p => fst p =? k) m with Some p => Some (snd p) | None => None end.
Definition lookup_e (f t : N) (m : list (N * N * N)) : option N :=
  match find (fun p => (fst (fst p) =? f) && (snd (fst p) =? t)) m with Some p => Some (snd p) | None => None end.

Fixpoint set_nth {A} (n : nat) (x : A) (l : list A) : list A :=
  match l, n with
  | [], _ => []
  | _ :: r, O => x :: r
  | y :: r, S n' => y :: set_nth n' x r
  end.

Definition release_all (held : list lk) (owners : list (lk * N)) : list (lk * N) :=
  filter (fun p => negb (existsb (lk_eqb (fst p)) held)) owners.

(* the operation ends early (a panic, or `?` returning an error): every guard the thread holds is dropped;
   a panic poisons them *)
Definition abort_op (g : gstate) (i : N) (th : thread) (o : op) (r : ores) (poison : bool) : gstate :=
  GS (release_all (t_held th) (g_owner g)) (if poison then t_held th ++ g_poison g else g_poison g)
     (g_templates g) (g_entries g)
     (set_nth (N.to_nat i) (TH [] None (t_ops th) [] None (r :: t_results th)) (g_threads g))
     ((i, o, r) :: g_log g).

(* the critical section of new_internal produced the operation's result; the guards are released next *)
Definition end_op (g : gstate) (i : N) (th : thread) (o : op) (r : ores) (rest : list action)
           (tm : list (N * N)) : gstate :=
  GS (g_owner g) (g_poison g) tm (g_entries g)
     (set_nth (N.to_nat i) (TH rest (t_op th) (t_ops th) (t_held th) (t_entry th) (r :: t_results th)) (g_threads g))
     ((i, o, r) :: g_log g).

Definition upd (g : gstate) (i : N) (th' : thread) (owners : list (lk * N)) (em : list (N * N * N)) : gstate :=
  GS owners (g_poison g) (g_templates g) em (set_nth (N.to_nat i) th' (g_threads g)) (g_log g).

(* one step of thread i; None when the thread is finished or blocked *)
Definition step (g : gstate) (i : N) : option gstate :=
  match nth_error (g_threads g) (N.to_nat i) with
  | None => None
  | Some th =>
      match t_cur th with
      | [] =>
          match t_ops th with
          | [] => None
          | o :: r => Some (upd g i (TH (prog_of o) (Some o) r (t_held th) None (t_results th)) (g_owner g) (g_entries g))
          end
      | a :: rest =>
          match t_op th with
          | None => None
          | Some o =>
              match a with
              | AAcq l =>
                  match owner_of g l with
                  | Some _ => None                                   (* blocked (also on itself: std Mutex is not re-entrant) *)
                  | None =>
                      if poisoned g l
                      then Some (abort_op g i th o RPanic true)        (* Guard::lock: .lock().unwrap() *)
                      else Some (upd g i (TH rest (t_op th) (t_ops th) (l :: t_held th) (t_entry th) (t_results th))
                                     ((l, i) :: g_owner g) (g_entries g))
                  end
              | ARel l =>
                  Some (upd g i (TH rest (t_op th) (t_ops th) (filter (fun x => negb (lk_eqb x l)) (t_held th)) (t_entry th) (t_results th))
                            (release_all [l] (g_owner g)) (g_entries g))
              | ACritEntry f t =>
                  match lookup_e f t (g_entries g) with
                  | Some k => Some (upd g i (TH rest (t_op th) (t_ops th) (t_held th) (Some k) (t_results th)) (g_owner g) (g_entries g))
                  | None =>
                      match resolve f t with
                      | Some k => Some (upd g i (TH rest (t_op th) (t_ops th) (t_held th) (Some k) (t_results th)) (g_owner g)
                                            ((f, t, k) :: g_entries g))
                      | None => Some (abort_op g i th o (RErr 0) false)    (* `?`: LoadLibraryFailed / LoadSymbolFailed *)
                      end
                  end
              | ACritCreate key =>
                  match (match key with Some k => Some k | None => t_entry th end) with
                  | None => Some (abort_op g i th o RPanic true)       (* unreachable: an OLoad resolved its entry first *)
                  | Some k =>
                      match lookup_t k (g_templates g) with
                      | Some t => Some (end_op g i th o (ROk t) rest (g_templates g))
                      | None =>
                          match negotiate k with
                          | NOk t => Some (end_op g i th o (ROk t) rest ((k, t) :: g_templates g))
                          | NErr e => Some (end_op g i th o (RErr e) rest (g_templates g))
                          | NPanic => Some (abort_op g i th o RPanic true)
                          end
                      end
                  end
              end
          end
      end
  end.

Definition init (progs : list (list op)) : gstate :=
  GS [] [] [] [] (map (fun ops => TH [] None ops [] None []) progs) [].

(* a schedule: the thread chosen at each step; choices of blocked or finished threads are skipped *)
Fixpoint run (sched : list N) (g : gstate) : gstate :=
  match sched with
  | [] => g
  | i :: r => match step g i with Some g' => run r g' | None => run r g end
  end.

Definition finished (th : thread) : bool :=
  match t_cur th, t_ops th with [], [] => true | _, _ => false end.
Definition all_finished (g : gstate) : bool := forallb finished (g_threads g).
Definition enabled (g : gstate) (i : N) : bool := match step g i with Some _ => true | None => false end.
Definition indices (g : gstate) : list N := map N.of_nat (seq 0 (length (g_threads g))).
Definition deadlocked (g : gstate) : bool := negb (all_finished g) && negb (existsb (enabled g) (indices g)).

(* the operations in the order in which they took effect, and their results *)
Definition log_ops (g : gstate) : list op := map (fun e => snd (fst e)) (rev (g_log g)).
Definition log_results (g : gstate) : list ores := map snd (rev (g_log g)).

(* ---- the sequential specification: operations one after another against the caches ---- *)
Record sstate := SS { s_poisonT : bool; s_poisonE : bool; s_templates : list (N * N); s_entries : list (N * N * N) }.

Definition seq_create (s : sstate) (k : N) : sstate * ores :=
  if s_poisonT s then (s, RPanic) else
  match lookup_t k (s_templates s) with
  | Some t => (s, ROk t)
  | None =>
      match negotiate k with
      | NOk t => (SS false (s_poisonE s) ((k, t) :: s_templates s) (s_entries s), ROk t)
      | NErr e => (s, RErr e)
      | NPanic => (SS true (s_poisonE s) (s_templates s) (s_entries s), RPanic)
      end
  end.

Definition seq_op (s : sstate) (o : op) : sstate * ores :=
  match o with
  | OCreate k => seq_create s k
  | OLoad f t =>
      if s_poisonE s then (s, RPanic) else
      match lookup_e f t (s_entries s) with
      | Some k => seq_create s k
      | None =>
          match resolve f t with
          | Some k => seq_create (SS (s_poisonT s) false (s_templates s) ((f, t, k) :: s_entries s)) k
          | None => (s, RErr 0)
          end
      end
  end.

Fixpoint seq_run (s : sstate) (ops : list op) : list ores :=
  match ops with
  | [] => []
  | o :: r => let '(s', res) := seq_op s o in res :: seq_run s' r
  end.

(* the result every operation has when nothing panics: a function of the operation alone *)
Definition spec_result (o : op) : ores :=
  let of_key := fun k => match negotiate k with NOk t => ROk t | NErr e => RErr e | NPanic => RPanic end in
  match o with
  | OCreate k => of_key k
  | OLoad f t => match resolve f t with Some k => of_key k | None => RErr 0 end
  end.

End Sem.

(* ---- lock-order analysis over the sequences the translator extracts ---- *)
(* edges a -> b: some function acquires b while holding a *)
Fixpoint seq_edges (s : list lk) : list (lk * lk) :=
  match s with
  | [] => []
  | a :: r => map (fun b => (a, b)) r ++ seq_edges r
  end.
Definition all_edges (seqs : list (list lk)) : list (lk * lk) := flat_map seq_edges seqs.
(* acyclic iff every edge goes up in some total order; with three locks: search the 6 orders *)
Definition respects (rank : lk -> N) (es : list (lk * lk)) : bool :=
  forallb (fun e => rank (fst e) <? rank (snd e)) es.
Definition perms3 : list (lk -> N) :=
  map (fun p : N * N * N => fun l => match l with LEntry => fst (fst p) | LLibrary => snd (fst p) | LTemplates => snd p end)
      [(0, 1, 2); (0, 2, 1); (1, 0, 2); (1, 2, 0); (2, 0, 1); (2, 1, 0)].
Definition acyclic (seqs : list (list lk)) : bool := existsb (fun r => respects r (all_edges seqs)) perms3.
Definition no_reacquire (seqs : list (list lk)) : bool :=
  forallb (fun s => (fix nodup (l : list lk) : bool :=
                       match l with [] => true | a :: r => negb (existsb (lk_eqb a) r) && nodup r end) s) seqs.
