(* HarnessC8.v — comparison functions for C08 / C14: chunk structure of the encrypted container. *)
From SF Require Import Bytes Crypto.
Open Scope N_scope.

Fixpoint list_N_eqb (a b : list N) : bool :=
  match a, b with
  | [], [] => true
  | x :: a', y :: b' => (x =? y) && list_N_eqb a' b'
  | _, _ => false
  end.

(* ops: Some n = write of n bytes, None = flush; observed: plaintext sizes of the emitted frames *)
Definition agree_frames (ops : list (option N)) (observed : list N) (file_len : N) : bool :=
  let sizes := op_sizes 0 ops in
  list_N_eqb sizes observed
  && (file_len =? 12 + fold_right (fun s acc => 8 + s + TAGLEN + acc) 0 sizes).
