(* HarnessC8.v — comparison functions for C08 / C14: chunk structure of the encrypted container. *)
From SF Require Import Bytes Crypto.
Open Scope N_scope.

Fixpoint list_N_eqb (a b : list N) : bool :=
  match a, b with
  | [], [] => true
  | x :: a', y :: b' => (x =? y) && list_N_eqb a' b'
  | _, _ => false
  end.

(* ops: Some n = write of n bytes, None = flush; observed: plaintext sizes of the emitted frames *)
Definition agree_frames (ops : list (option N)) (observed : list N) (file_len : N) : bool :=
  let sizes := op_sizes 0 ops in
  list_N_eqb sizes observed
  && (file_len =? 12 + fold_right (fun s acc => 8 + s + TAGLEN + acc) 0 sizes).

(* ---- CryptoReader over a chunked / interrupting / failing underlying reader (CryptoIo.v) ---- *)
From SF Require Import CryptoIo.

(* the AEAD as a table extracted from the file by an independent decryptor: (nonce, ciphertext||tag) -> plaintext *)
Definition tbl := list (N * N * bytes * bytes).
Definition open_tbl (t : tbl) (_ : unit) (n : nonce) (c : bytes) : option bytes :=
  match find (fun e => (fst (fst (fst e)) =? fst n) && (snd (fst (fst e)) =? snd n) && bytes_eqb (snd (fst e)) c) t with
  | Some e => Some (snd e)
  | None => None
  end.

Definition io_eqb (a b : io bytes) : bool :=
  match a, b with
  | IoOk x, IoOk y => bytes_eqb x y
  | IoErr IoEof, IoErr IoEof | IoErr IoOther, IoErr IoOther => true
  | _, _ => false
  end.
Fixpoint ios_eqb (a b : list (io bytes)) : bool :=
  match a, b with
  | [], [] => true
  | x :: a', y :: b' => io_eqb x y && ios_eqb a' b'
  | _, _ => false
  end.

Definition agree_serve (t : tbl) (file : bytes) (sched : list N) (budget : option N) (reqs : list N)
           (observed : list (io bytes)) : bool :=
  ios_eqb (serve unit (open_tbl t) tt (UR file sched budget) reqs) observed.
