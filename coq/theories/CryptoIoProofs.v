(* CryptoIoProofs.v — proofs about CryptoIo.v: what a consumer obtains through read_exact calls on a CryptoReader
   does not depend on how the underlying reader chunks its data or how often it returns Interrupted; it is the
   sequence of slices of the plaintext for intact streams; underlying faults surface as errors.
   Route: a schedule-free ("pure") model of the reader over the remaining data only ([p_read], [p_read_exact],
   [p_drain], [p_serve]); a simulation of the real state machines by the pure model for every schedule and every
   budget that runs out before the data does; properties of the pure model. No axioms. *)
From Coq Require Import Lia ZArith List Bool.
From SF Require Import Bytes Crypto CryptoProofs CryptoIo.
Import ListNotations.
Open Scope N_scope.

Local Notation len l := (N.of_nat (length l)).

(* ---------- list facts ---------- *)

Lemma firstn_skipn_add {A} (l : list A) : forall a b, firstn a l ++ firstn b (skipn a l) = firstn (a + b) l.
Proof.
  induction l as [|x l IH]; intros a b.
  - now rewrite skipn_nil, !firstn_nil.
  - destruct a as [|a]; [reflexivity|]. cbn [firstn skipn Nat.add app]. now rewrite IH.
Qed.

Lemma skipn_skipn_add {A} (l : list A) : forall a b, skipn b (skipn a l) = skipn (a + b) l.
Proof.
  induction l as [|x l IH]; intros a b.
  - now rewrite !skipn_nil.
  - destruct a as [|a]; [reflexivity|]. cbn [skipn Nat.add]. apply IH.
Qed.

Lemma len_pos_nonnil {A} (l : list A) : l <> [] -> 0 < len l.
Proof. destruct l; [congruence|]. cbn [length]. lia. Qed.

Lemma firstn_nil_inv {A} n (l : list A) : firstn n l = [] -> (n <= length l)%nat -> n = O.
Proof. intros H Hl. apply (f_equal (@length _)) in H. rewrite firstn_length in H. cbn in H. lia. Qed.

(* ---------- one read of the underlying reader ---------- *)

Definition ubsub (o : option N) (n : N) : option N := match o with Some b => Some (b - n) | None => None end.

Lemma ur_read_cases data sched bud want :
  (exists r, sched = 0 :: r /\ ur_read (UR data sched bud) want = (RInterrupted, UR data r bud))
  \/ (bud = Some 0 /\ exists s', ur_read (UR data sched bud) want = (RFault, s'))
  \/ (exists n s', ur_read (UR data sched bud) want =
                     (RBytes (firstn (N.to_nat n) data), UR (skipn (N.to_nat n) data) s' (ubsub bud n))
        /\ n <= want /\ n <= len data /\ (length s' <= length sched)%nat
        /\ (forall b, bud = Some b -> n <= b)
        /\ (0 < want -> data <> [] -> 0 < n)).
Proof.
  unfold ur_read; cbn [u_data u_sched u_budget].
  destruct sched as [|[|c] r].
  - destruct bud as [[|b]|].
    + right; left. split; [reflexivity|]. eexists; reflexivity.
    + right; right. eexists; eexists. split; [reflexivity|]. cbn [length].
      repeat split; try lia. * intros b' Hb; inversion Hb; lia. * intros Hw Hd. apply len_pos_nonnil in Hd. lia.
    + right; right. eexists; eexists. split; [reflexivity|]. cbn [length].
      repeat split; try lia. * intros b' Hb; inversion Hb. * intros Hw Hd. apply len_pos_nonnil in Hd. lia.
  - left. eexists; split; reflexivity.
  - destruct bud as [[|b]|].
    + right; left. split; [reflexivity|]. eexists; reflexivity.
    + right; right. eexists; eexists. split; [reflexivity|]. cbn [length].
      repeat split; try lia. * intros b' Hb; inversion Hb; lia. * intros Hw Hd. apply len_pos_nonnil in Hd. lia.
    + right; right. eexists; eexists. split; [reflexivity|]. cbn [length].
      repeat split; try lia. * intros b' Hb; inversion Hb. * intros Hw Hd. apply len_pos_nonnil in Hd. lia.
Qed.

(* ---------- what read_exact / the header loop obtain, as functions of the remaining data only ---------- *)

Definition px_res (data : bytes) (want : N) (acc : bytes) : io bytes :=
  if want <=? len data then IoOk (acc ++ firstn (N.to_nat want) data) else IoErr IoEof.
Definition px_rest (data : bytes) (want : N) : bytes :=
  if want <=? len data then skipn (N.to_nat want) data else [].

Definition ph_res (got data : bytes) : hres :=
  if 8 <=? len got + len data then HHeader (got ++ firstn (N.to_nat (8 - len got)) data)
  else match got ++ data with [] => HCleanEof | _ => HErr IoEof end.
Definition ph_rest (got data : bytes) : bytes :=
  if 8 <=? len got + len data then skipn (N.to_nat (8 - len got)) data else [].

Lemma px_step data want acc n : n <= want -> n <= len data ->
  px_res (skipn (N.to_nat n) data) (want - n) (acc ++ firstn (N.to_nat n) data) = px_res data want acc
  /\ px_rest (skipn (N.to_nat n) data) (want - n) = px_rest data want.
Proof.
  intros H1 H2. unfold px_res, px_rest. rewrite skipn_length.
  destruct (N.leb_spec (want - n) (N.of_nat (length data - N.to_nat n)));
    destruct (N.leb_spec want (len data)); try lia.
  - rewrite <- app_assoc, firstn_skipn_add, skipn_skipn_add.
    replace (N.to_nat n + N.to_nat (want - n))%nat with (N.to_nat want) by lia. split; reflexivity.
  - split; reflexivity.
Qed.

Lemma ph_step got data n : n <= 8 - len got -> n <= len data ->
  ph_res (got ++ firstn (N.to_nat n) data) (skipn (N.to_nat n) data) = ph_res got data
  /\ ph_rest (got ++ firstn (N.to_nat n) data) (skipn (N.to_nat n) data) = ph_rest got data.
Proof.
  intros H1 H2. unfold ph_res, ph_rest. rewrite app_length, skipn_length, firstn_length.
  destruct (N.leb_spec 8 (N.of_nat (length got + Nat.min (N.to_nat n) (length data)) + N.of_nat (length data - N.to_nat n)));
    destruct (N.leb_spec 8 (len got + len data)); try lia.
  - rewrite <- app_assoc, firstn_skipn_add, skipn_skipn_add.
    replace (N.to_nat n + N.to_nat (8 - N.of_nat (length got + Nat.min (N.to_nat n) (length data))))%nat
      with (N.to_nat (8 - len got)) by lia.
    split; reflexivity.
  - rewrite <- app_assoc, firstn_skipn. split; reflexivity.
Qed.

(* ---------- the two loops over the underlying reader, for every schedule and budget ---------- *)

(* the budget, if any, runs out strictly before the data does *)
Definition uok (u : ur) : Prop := match u_budget u with None => True | Some b => b < len (u_data u) end.

Definition ex_ok (u : ur) (want : N) (acc : bytes) (res : io bytes * ur) : Prop :=
  (fst res = px_res (u_data u) want acc /\ u_data (snd res) = px_rest (u_data u) want /\ uok (snd res)
   /\ (u_budget u = None -> u_budget (snd res) = None))
  \/ (u_budget u <> None /\ fst res = IoErr IoOther).

Definition hd_ok (u : ur) (got : bytes) (res : hres * ur) : Prop :=
  (fst res = ph_res got (u_data u) /\ u_data (snd res) = ph_rest got (u_data u) /\ uok (snd res)
   /\ (u_budget u = None -> u_budget (snd res) = None))
  \/ (u_budget u <> None /\ fst res = HErr IoOther).

Lemma uok_step data s' bud n : uok (UR data [] bud) -> n <= len data -> (forall b, bud = Some b -> n <= b) ->
  uok (UR (skipn (N.to_nat n) data) s' (ubsub bud n)).
Proof.
  unfold uok; cbn [u_budget u_data]. destruct bud as [b|]; cbn [ubsub]; [|trivial].
  intros H1 H2 H3. specialize (H3 b eq_refl). rewrite skipn_length. lia.
Qed.

Lemma ubsub_none bud n : bud = None -> ubsub bud n = None.
Proof. intros ->; reflexivity. Qed.
Lemma ubsub_some bud n : ubsub bud n <> None -> bud <> None.
Proof. destruct bud; [discriminate|intros H; exact H]. Qed.

Lemma gen_exact fuel : forall u want acc, uok u -> (length (u_sched u) + N.to_nat want < fuel)%nat ->
  ex_ok u want acc (ur_read_exact fuel u want acc).
Proof.
  induction fuel as [|f IH]; intros [data sched bud] want acc Hok Hf; cbn [u_sched] in Hf; [lia|].
  cbn [ur_read_exact]. destruct (N.eqb_spec want 0) as [->|Hw].
  - left. cbn [fst snd u_data u_budget]. unfold px_res, px_rest.
    destruct (N.leb_spec 0 (len data)); [|lia]. cbn [N.to_nat firstn skipn]. rewrite app_nil_r. auto.
  - destruct (ur_read_cases data sched bud want)
      as [(r & -> & E)|[(-> & s' & E)|(n & s' & E & H1 & H2 & H3 & H4 & H5)]]; rewrite E; cbv beta iota.
    + cbn [length] in Hf. apply (IH (UR data r bud) want acc); [exact Hok|cbn [u_sched]; lia].
    + right. split; [discriminate|reflexivity].
    + destruct (firstn (N.to_nat n) data) as [|x l] eqn:Eb.
      * apply firstn_nil_inv in Eb; [|lia]. assert (n = 0) by lia. subst n.
        assert (data = []) as ->.
        { destruct data as [|y d]; [reflexivity|]. assert (0 < 0) by (apply H5; [lia|discriminate]). lia. }
        destruct bud as [b|]; [unfold uok in Hok; cbn in Hok; lia|].
        left. cbn [fst snd u_data u_budget skipn N.to_nat ubsub]. unfold px_res, px_rest.
        destruct (N.leb_spec want (len (@nil N))); [cbn in *; lia|]. unfold uok; cbn. auto.
      * assert (Hl : len (x :: l) = n).
        { rewrite <- Eb, firstn_length. lia. }
        rewrite Hl, <- Eb.
        assert (Hok' : uok (UR (skipn (N.to_nat n) data) s' (ubsub bud n))) by (apply uok_step; assumption).
        specialize (IH (UR (skipn (N.to_nat n) data) s' (ubsub bud n)) (want - n)
                       (acc ++ firstn (N.to_nat n) data) Hok').
        assert (0 < n).
        { destruct (N.eq_dec n 0) as [->|]; [cbn in Eb; discriminate|lia]. }
        cbn [u_sched] in IH. specialize (IH ltac:(lia)).
        unfold ex_ok in *. cbn [u_data u_budget] in *.
        destruct (px_step data want acc n H1 H2) as [P1 P2]. rewrite P1, P2 in IH.
        destruct IH as [(A & B & C & D)|(A & B)]; [left|right].
        -- repeat split; try assumption. intros Hn. apply D. apply ubsub_none; exact Hn.
        -- split; [apply (ubsub_some _ _ A)|exact B].
Qed.

Lemma gen_header fuel : forall u got, uok u -> len got < 8 ->
  (length (u_sched u) + N.to_nat (8 - len got) < fuel)%nat ->
  hd_ok u got (read_header fuel u got).
Proof.
  induction fuel as [|f IH]; intros [data sched bud] got Hok Hg Hf; cbn [u_sched] in Hf; [lia|].
  cbn [read_header].
  destruct (ur_read_cases data sched bud (8 - len got))
    as [(r & -> & E)|[(-> & s' & E)|(n & s' & E & H1 & H2 & H3 & H4 & H5)]]; rewrite E; cbv beta iota.
  - cbn [length] in Hf. apply (IH (UR data r bud) got); [exact Hok|exact Hg|cbn [u_sched]; lia].
  - right. split; [discriminate|reflexivity].
  - destruct (firstn (N.to_nat n) data) as [|x l] eqn:Eb.
    + apply firstn_nil_inv in Eb; [|lia]. assert (n = 0) by lia. subst n.
      assert (data = []) as ->.
      { destruct data as [|y d]; [reflexivity|]. assert (0 < 0) by (apply H5; [lia|discriminate]). lia. }
      destruct bud as [b|]; [unfold uok in Hok; cbn in Hok; lia|].
      left. cbn [fst snd u_data u_budget skipn N.to_nat ubsub]. unfold ph_res, ph_rest.
      destruct (N.leb_spec 8 (len got + len (@nil N))); [cbn in *; lia|]. rewrite app_nil_r.
      unfold uok; cbn. auto.
    + assert (Hl : len (x :: l) = n).
      { rewrite <- Eb, firstn_length. lia. }
      rewrite app_length. rewrite <- Eb in *.
      assert (Hok' : uok (UR (skipn (N.to_nat n) data) s' (ubsub bud n))) by (apply uok_step; assumption).
      assert (0 < n).
      { destruct (N.eq_dec n 0) as [->|]; [cbn in Eb; discriminate|lia]. }
      destruct (ph_step got data n H1 H2) as [P1 P2].
      destruct (N.eqb_spec (N.of_nat (length got + length (firstn (N.to_nat n) data))) 8) as [E8|E8].
      * left. cbn [fst snd u_data u_budget]. rewrite <- P1, <- P2. unfold ph_res, ph_rest.
        rewrite app_length, skipn_length.
        destruct (N.leb_spec 8 (N.of_nat (length got + length (firstn (N.to_nat n) data)) + N.of_nat (length data - N.to_nat n))); [|lia].
        rewrite E8. cbn [N.sub N.to_nat firstn skipn]. change (N.to_nat (8 - 8)) with O. cbn [firstn skipn].
        rewrite app_nil_r. repeat split; try assumption. intros Hn; apply ubsub_none; exact Hn.
      * specialize (IH (UR (skipn (N.to_nat n) data) s' (ubsub bud n)) (got ++ firstn (N.to_nat n) data) Hok').
        rewrite app_length in IH. specialize (IH ltac:(lia)). cbn [u_sched] in IH. specialize (IH ltac:(lia)).
        unfold hd_ok in *. cbn [u_data u_budget] in *. rewrite P1, P2 in IH.
        destruct IH as [(A & B & C & D)|(A & B)]; [left|right].
        -- repeat split; try assumption. intros Hn. apply D. apply ubsub_none; exact Hn.
        -- split; [apply (ubsub_some _ _ A)|exact B].
Qed.

(* ---------- A. the underlying reader without faults ---------- *)

Lemma ur_none_shape (u : ur) data : u_data u = data -> u_budget u = None -> u = UR data (u_sched u) None.
Proof. destruct u; cbn; intros -> ->; reflexivity. Qed.

Lemma ur_read_exact_spec : forall sched data want acc fuel, (length sched + N.to_nat want < fuel)%nat ->
  (want <= len data -> exists sched',
      ur_read_exact fuel (UR data sched None) want acc =
      (IoOk (acc ++ firstn (N.to_nat want) data), UR (skipn (N.to_nat want) data) sched' None))
  /\ (len data < want -> exists sched',
      ur_read_exact fuel (UR data sched None) want acc = (IoErr IoEof, UR [] sched' None)).
Proof.
  intros sched data want acc fuel Hf.
  destruct (gen_exact fuel (UR data sched None) want acc I Hf) as [(A & B & _ & D)|(A & _)];
    [|cbn in A; congruence].
  cbn [u_data u_budget] in *. specialize (D eq_refl).
  destruct (ur_read_exact fuel (UR data sched None) want acc) as [r u']. cbn [fst snd] in *.
  rewrite (ur_none_shape u' _ B D). subst r. unfold px_res, px_rest.
  split; intros H; exists (u_sched u'); destruct (N.leb_spec want (len data)); try lia; reflexivity.
Qed.

Lemma read_header_spec : forall sched data fuel, (length sched + 8 < fuel)%nat ->
  (data = [] -> exists sched', read_header fuel (UR data sched None) [] = (HCleanEof, UR [] sched' None))
  /\ ((0 < length data < 8)%nat -> exists sched',
        read_header fuel (UR data sched None) [] = (HErr IoEof, UR [] sched' None))
  /\ ((8 <= length data)%nat -> exists sched',
        read_header fuel (UR data sched None) [] = (HHeader (firstn 8 data), UR (skipn 8 data) sched' None)).
Proof.
  intros sched data fuel Hf.
  destruct (gen_header fuel (UR data sched None) [] I) as [(A & B & _ & D)|(A & _)];
    [cbn; lia|cbn; lia| |cbn in A; congruence].
  cbn [u_data u_budget] in *. specialize (D eq_refl).
  destruct (read_header fuel (UR data sched None) []) as [r u']. cbn [fst snd] in *.
  rewrite (ur_none_shape u' _ B D). subst r. unfold ph_res, ph_rest. cbn [length app].
  change (N.to_nat (8 - N.of_nat 0)) with 8%nat.
  repeat split; intros H; exists (u_sched u'); destruct (N.leb_spec 8 (N.of_nat 0 + len data)) as [H0|H0];
    try (subst data; cbn in H0); try lia; try reflexivity.
  destruct data; [cbn in H; lia|reflexivity].
Qed.

(* ---------- relating a run that may hit a fault to the fault-free run ---------- *)

(* [orel out ref]: [out] is [ref], or a prefix of [ref] followed by one error *)
Inductive orel : list (io bytes) -> list (io bytes) -> Prop :=
| orel_same l : orel l l
| orel_err e l : orel [IoErr e] l
| orel_cons x l l' : orel l l' -> orel (x :: l) (x :: l').

Lemma orel_nofuel out ref : orel out ref -> ~ In IoFuel ref -> ~ In IoFuel out.
Proof.
  induction 1 as [l|e l|x l l' H IH]; intros Hn.
  - exact Hn.
  - intros [H|[]]; discriminate.
  - intros [->|H1]; [apply Hn; left; reflexivity|]. apply IH; [|exact H1]. intros H2; apply Hn; right; exact H2.
Qed.

Lemma orel_ok out ref : orel out ref -> forall i bs, nth_error out i = Some (IoOk bs) -> nth_error ref i = Some (IoOk bs).
Proof.
  induction 1 as [l|e l|x l l' H IH]; intros i bs Hi.
  - exact Hi.
  - destruct i as [|[|i]]; cbn in Hi; discriminate.
  - destruct i as [|i]; cbn [nth_error] in *; [exact Hi|apply IH; exact Hi].
Qed.

Section Sim.
Variable key : Type.
Variable open : key -> nonce -> bytes -> option bytes.
Variable k : key.

Local Notation cr_read := (cr_read key open k).
Local Notation cr_read_exact := (cr_read_exact key open k).
Local Notation drain := (drain key open k).
Local Notation serve := (serve key open k).

(* ---------- the schedule-free model: pending plaintext, nonce, remaining input ---------- *)

Record pst := PS { p_pend : bytes; p_nonce : nonce; p_data : bytes }.

Definition p_exact (data : bytes) (want : N) : io bytes * bytes := (px_res data want [], px_rest data want).
Definition p_header (data : bytes) : hres * bytes := (ph_res [] data, ph_rest [] data).

Fixpoint p_read (fuel : nat) (s : pst) (want : N) : io bytes * pst :=
  if want <=? len (p_pend s)
  then (IoOk (firstn (N.to_nat want) (p_pend s)), PS (skipn (N.to_nat want) (p_pend s)) (p_nonce s) (p_data s))
  else
  match fuel with
  | O => (IoFuel, s)
  | S f =>
      match p_header (p_data s) with
      | (HCleanEof, d') => (IoOk (p_pend s), PS [] (p_nonce s) d')
      | (HErr e, d') => (IoErr e, PS (p_pend s) (p_nonce s) d')
      | (HFuel, d') => (IoFuel, PS (p_pend s) (p_nonce s) d')
      | (HHeader h, d') =>
          let curlen := unle h in
          if BUFSIZE + TAGLEN <? curlen then (IoErr IoOther, PS (p_pend s) (p_nonce s) d') else
          match p_exact d' curlen with
          | (IoOk body, d'') =>
              let n1 := advance (p_nonce s) in
              match open k n1 body with
              | Some p => p_read f (PS (p_pend s ++ p) n1 d'') want
              | None => (IoErr IoOther, PS (p_pend s) n1 d'')
              end
          | (IoErr e, d'') => (IoErr e, PS (p_pend s) (p_nonce s) d'')
          | (IoFuel, d'') => (IoFuel, PS (p_pend s) (p_nonce s) d'')
          end
      end
  end.

Fixpoint p_read_exact (fuel : nat) (s : pst) (want : N) (acc : bytes) : io bytes * pst :=
  if want =? 0 then (IoOk acc, s) else
  match fuel with
  | O => (IoFuel, s)
  | S f =>
      match p_read (S (length (p_data s))) s want with
      | (IoOk [], s') => (IoErr IoEof, s')
      | (IoOk b, s') => p_read_exact f s' (want - len b) (acc ++ b)
      | (IoErr e, s') => (IoErr e, s')
      | (IoFuel, s') => (IoFuel, s')
      end
  end.

Fixpoint p_drain (s : pst) (reqs : list N) : list (io bytes) :=
  match reqs with
  | [] => []
  | n :: r =>
      match p_read_exact (S (N.to_nat n)) s n [] with
      | (IoOk b, s') => IoOk b :: p_drain s' r
      | (other, _) => [other]
      end
  end.

Definition p_new (data : bytes) : io pst :=
  match p_exact data 8 with
  | (IoOk a, d1) =>
      match p_exact d1 4 with
      | (IoOk b, d2) => IoOk (PS [] (unle a, unle b) d2)
      | (IoErr e, _) => IoErr e
      | (IoFuel, _) => IoFuel
      end
  | (IoErr e, _) => IoErr e
  | (IoFuel, _) => IoFuel
  end.

Definition p_serve (data : bytes) (reqs : list N) : list (io bytes) :=
  match p_new data with
  | IoOk s => p_drain s reqs
  | IoErr e => [IoErr e]
  | IoFuel => [IoFuel]
  end.

(* ---------- simulation ---------- *)

Definition abs (c : cr) : pst := PS (c_pend c) (c_nonce c) (u_data (c_under c)).
Definition cok (c : cr) : Prop := uok (c_under c).
Definition cnone (c : cr) : Prop := u_budget (c_under c) = None.

Definition rd_ok (c : cr) (res : io bytes * cr) (pres : io bytes * pst) : Prop :=
  (fst res = fst pres /\ abs (snd res) = snd pres /\ cok (snd res) /\ (cnone c -> cnone (snd res)))
  \/ (~ cnone c /\ exists e, fst res = IoErr e).

Lemma rd_ok_weaken c c' res pres : (cnone c -> cnone c') -> rd_ok c' res pres -> rd_ok c res pres.
Proof.
  intros H [(A & B & C & D)|(A & B)]; [left|right].
  - repeat split; try assumption. intros Hn; apply D, H, Hn.
  - split; [intros Hn; apply A, H, Hn|exact B].
Qed.

Lemma sim_read fuel : forall c want, cok c -> rd_ok c (cr_read fuel c want) (p_read fuel (abs c) want).
Proof.
  induction fuel as [|f IH]; intros [pend n u] want Hok; unfold cok in Hok; cbn [c_under] in Hok;
    cbn [CryptoIo.cr_read p_read abs c_pend c_nonce c_under p_pend p_nonce p_data].
  - destruct (want <=? len pend); left; cbn [fst snd abs c_pend c_nonce c_under]; auto.
  - destruct (want <=? len pend); [left; cbn [fst snd abs c_pend c_nonce c_under]; auto|].
    pose proof (gen_header (header_fuel u) u [] Hok) as HH.
    specialize (HH ltac:(cbn; lia) ltac:(unfold header_fuel; cbn; lia)).
    destruct (read_header (header_fuel u) u []) as [hr u'].
    destruct HH as [(A & B & C & D)|(A & B)]; cbn [fst snd] in *; subst hr.
    2:{ right. split; [exact A|eexists; reflexivity]. }
    unfold p_header. rewrite <- B. destruct (ph_res [] (u_data u)) as [h| |e|].
    + cbv zeta. destruct (BUFSIZE + TAGLEN <? unle h).
      { left. cbn [fst snd abs c_pend c_nonce c_under]. auto. }
      pose proof (gen_exact (exact_fuel u' (unle h)) u' (unle h) [] C) as HE.
      specialize (HE ltac:(unfold exact_fuel; lia)).
      destruct (ur_read_exact (exact_fuel u' (unle h)) u' (unle h) []) as [r u''].
      destruct HE as [(A2 & B2 & C2 & D2)|(A2 & B2)]; cbn [fst snd] in *; subst r.
      2:{ right. split; [intros Hn; apply A2, D, Hn|eexists; reflexivity]. }
      unfold p_exact. rewrite <- B2. destruct (px_res (u_data u') (unle h) []) as [body|e|].
      * destruct (open k (advance n) body) as [p|].
        -- apply (rd_ok_weaken _ (CR (pend ++ p) (advance n) u'')).
           ++ unfold cnone; cbn [c_under]. intros Hn; apply D2, D, Hn.
           ++ apply (IH (CR (pend ++ p) (advance n) u'') want). exact C2.
        -- left. cbn [fst snd abs c_pend c_nonce c_under]. unfold cok, cnone; cbn [c_under]. repeat split; auto.
      * left. cbn [fst snd abs c_pend c_nonce c_under]. unfold cok, cnone; cbn [c_under]. repeat split; auto.
      * left. cbn [fst snd abs c_pend c_nonce c_under]. unfold cok, cnone; cbn [c_under]. repeat split; auto.
    + left. cbn [fst snd abs c_pend c_nonce c_under]. unfold cok, cnone; cbn [c_under]. repeat split; auto.
    + left. cbn [fst snd abs c_pend c_nonce c_under]. unfold cok, cnone; cbn [c_under]. repeat split; auto.
    + left. cbn [fst snd abs c_pend c_nonce c_under]. unfold cok, cnone; cbn [c_under]. repeat split; auto.
Qed.

Lemma sim_read_exact fuel : forall c want acc, cok c ->
  rd_ok c (cr_read_exact fuel c want acc) (p_read_exact fuel (abs c) want acc).
Proof.
  induction fuel as [|f IH]; intros c want acc Hok; cbn [CryptoIo.cr_read_exact p_read_exact].
  - destruct (want =? 0); left; cbn [fst snd]; auto.
  - destruct (want =? 0); [left; cbn [fst snd]; auto|].
    pose proof (sim_read (cr_fuel c) c want Hok) as HR.
    change (cr_fuel c) with (S (length (p_data (abs c)))) in HR at 2.
    destruct (cr_read (cr_fuel c) c want) as [r c'].
    destruct (p_read (S (length (p_data (abs c)))) (abs c) want) as [r' s'].
    destruct HR as [(A & B & C & D)|(A & e & B)]; cbn [fst snd] in *; subst.
    + destruct r' as [[|x l]|e|].
      * left. cbn [fst snd]. auto.
      * apply (rd_ok_weaken _ c'); [exact D|]. apply IH; exact C.
      * left. cbn [fst snd]. auto.
      * left. cbn [fst snd]. auto.
    + right. split; [exact A|]. exists e; reflexivity.
Qed.

Lemma sim_drain reqs : forall c, cok c ->
  orel (drain c reqs) (p_drain (abs c) reqs) /\ (cnone c -> drain c reqs = p_drain (abs c) reqs).
Proof.
  induction reqs as [|a r IH]; intros c Hok; cbn [CryptoIo.drain p_drain].
  - split; [apply orel_same|reflexivity].
  - pose proof (sim_read_exact (S (N.to_nat a)) c a [] Hok) as HR.
    destruct (cr_read_exact (S (N.to_nat a)) c a []) as [x c'].
    destruct (p_read_exact (S (N.to_nat a)) (abs c) a []) as [x' s'].
    destruct HR as [(A & B & C & D)|(A & e & B)]; cbn [fst snd] in *; subst.
    + destruct x' as [b|e|].
      * destruct (IH c' C) as [I1 I2]. split; [apply orel_cons; exact I1|].
        intros Hn. f_equal. apply I2, D, Hn.
      * split; [apply orel_same|reflexivity].
      * split; [apply orel_same|reflexivity].
    + split; [apply orel_err|]. intros Hn; contradiction.
Qed.

Definition new_ok (u : ur) (r : io cr) (pr : io pst) : Prop :=
  (exists c, r = IoOk c /\ pr = IoOk (abs c) /\ cok c /\ (u_budget u = None -> cnone c))
  \/ (exists e, r = IoErr e /\ pr = IoErr e)
  \/ (r = IoFuel /\ pr = IoFuel)
  \/ (u_budget u <> None /\ exists e, r = IoErr e).

Lemma sim_new u : uok u -> new_ok u (cr_new u) (p_new (u_data u)).
Proof.
  intros Hok. unfold cr_new, p_new, p_exact.
  pose proof (gen_exact (exact_fuel u 8) u 8 [] Hok ltac:(unfold exact_fuel; lia)) as H1.
  destruct (ur_read_exact (exact_fuel u 8) u 8 []) as [r1 u1].
  destruct H1 as [(A & B & C & D)|(A & B)]; cbn [fst snd] in *; subst r1.
  2:{ right; right; right. split; [exact A|eexists; reflexivity]. }
  rewrite <- B. destruct (px_res (u_data u) 8 []) as [a|e|].
  - pose proof (gen_exact (exact_fuel u1 4) u1 4 [] C ltac:(unfold exact_fuel; lia)) as H2.
    destruct (ur_read_exact (exact_fuel u1 4) u1 4 []) as [r2 u2].
    destruct H2 as [(A2 & B2 & C2 & D2)|(A2 & B2)]; cbn [fst snd] in *; subst r2.
    2:{ right; right; right. split; [intros Hn; apply A2, D, Hn|eexists; reflexivity]. }
    rewrite <- B2. destruct (px_res (u_data u1) 4 []) as [b|e|].
    + left. eexists. split; [reflexivity|]. unfold abs, cok, cnone; cbn [c_pend c_nonce c_under].
      repeat split; auto.
    + right; left. eexists; split; reflexivity.
    + right; right; left. split; reflexivity.
  - right; left. eexists; split; reflexivity.
  - right; right; left. split; reflexivity.
Qed.

Theorem serve_sim u reqs : uok u ->
  orel (serve u reqs) (p_serve (u_data u) reqs) /\ (u_budget u = None -> serve u reqs = p_serve (u_data u) reqs).
Proof.
  intros Hok. unfold CryptoIo.serve, p_serve.
  destruct (sim_new u Hok) as [(c & -> & -> & C & D)|[(e & -> & ->)|[(-> & ->)|(A & e & ->)]]].
  - destruct (sim_drain reqs c C) as [I1 I2]. split; [exact I1|]. intros Hn; apply I2, D, Hn.
  - split; [apply orel_same|reflexivity].
  - split; [apply orel_same|reflexivity].
  - split; [apply orel_err|]. intros Hn; contradiction.
Qed.

(* ---------- B. chunking independence ---------- *)

Definition same_data (u1 u2 : ur) : Prop := u_data u1 = u_data u2 /\ u_budget u1 = None /\ u_budget u2 = None.

Lemma serve_pure file sched reqs : serve (UR file sched None) reqs = p_serve file reqs.
Proof. apply (serve_sim (UR file sched None) reqs I). reflexivity. Qed.

Theorem serve_same_data u1 u2 reqs : same_data u1 u2 -> serve u1 reqs = serve u2 reqs.
Proof.
  intros (A & B & C).
  rewrite (proj2 (serve_sim u1 reqs ltac:(unfold uok; rewrite B; exact I)) B).
  rewrite (proj2 (serve_sim u2 reqs ltac:(unfold uok; rewrite C; exact I)) C).
  now rewrite A.
Qed.

Theorem serve_chunking_independent : forall file sched1 sched2 reqs,
  serve (UR file sched1 None) reqs = serve (UR file sched2 None) reqs.
Proof. intros. now rewrite !serve_pure. Qed.

(* ---------- the fuels suffice ---------- *)

Lemma px_res_nofuel data want acc : px_res data want acc <> IoFuel.
Proof. unfold px_res. destruct (want <=? len data); discriminate. Qed.

Lemma ph_res_nofuel got data : ph_res got data <> HFuel.
Proof. unfold ph_res. destruct (8 <=? len got + len data); [discriminate|]. destruct (got ++ data); discriminate. Qed.

Lemma px_rest_len data want : (length (px_rest data want) <= length data)%nat.
Proof. unfold px_rest. destruct (want <=? len data); [rewrite skipn_length; lia|cbn; lia]. Qed.

Lemma ph_rest_len data h : ph_res [] data = HHeader h -> (length (ph_rest [] data) + 8 <= length data)%nat.
Proof.
  unfold ph_res, ph_rest. cbn [length app]. destruct (N.leb_spec 8 (N.of_nat 0 + len data)).
  - intros _. rewrite skipn_length. lia.
  - destruct data; discriminate.
Qed.

(* every frame consumes at least 8 bytes of input *)
Lemma p_read_nofuel fuel : forall s want, (length (p_data s) < fuel)%nat -> fst (p_read fuel s want) <> IoFuel.
Proof.
  induction fuel as [|f IH]; intros [pend n data] want Hf; cbn [p_data] in Hf; [lia|].
  cbn [p_read p_pend p_nonce p_data]. destruct (want <=? len pend); [cbn; discriminate|].
  unfold p_header. destruct (ph_res [] data) as [h| |e|] eqn:Eh; try (cbn; discriminate).
  - cbv zeta. destruct (BUFSIZE + TAGLEN <? unle h); [cbn; discriminate|].
    unfold p_exact. destruct (px_res (ph_rest [] data) (unle h) []) as [body|e|] eqn:Ex; try (cbn; discriminate).
    + destruct (open k (advance n) body); [|cbn; discriminate].
      apply IH. cbn [p_data]. pose proof (px_rest_len (ph_rest [] data) (unle h)).
      pose proof (ph_rest_len data h Eh). lia.
    + exfalso. exact (px_res_nofuel _ _ _ Ex).
  - exfalso. exact (ph_res_nofuel _ _ Eh).
Qed.

(* every successful read delivers at least one byte, or the loop ends *)
Lemma p_read_exact_nofuel fuel : forall s want acc, (N.to_nat want < fuel)%nat ->
  fst (p_read_exact fuel s want acc) <> IoFuel.
Proof.
  induction fuel as [|f IH]; intros s want acc Hf; [lia|].
  cbn [p_read_exact]. destruct (N.eqb_spec want 0); [cbn; discriminate|].
  pose proof (p_read_nofuel (S (length (p_data s))) s want ltac:(lia)) as HR.
  destruct (p_read (S (length (p_data s))) s want) as [r s']. cbn [fst] in HR.
  destruct r as [[|x l]|e|]; try (cbn; discriminate); [|congruence].
  apply IH. cbn [length]. lia.
Qed.

Lemma p_drain_nofuel reqs : forall s, ~ In IoFuel (p_drain s reqs).
Proof.
  induction reqs as [|a r IH]; intros s; cbn [p_drain]; [intros []|].
  pose proof (p_read_exact_nofuel (S (N.to_nat a)) s a [] ltac:(lia)) as HR.
  destruct (p_read_exact (S (N.to_nat a)) s a []) as [x s']. cbn [fst] in HR.
  destruct x as [b|e|]; [|intros [H|[]]; discriminate|congruence].
  intros [H|H]; [discriminate|exact (IH s' H)].
Qed.

Lemma p_serve_nofuel data reqs : ~ In IoFuel (p_serve data reqs).
Proof.
  unfold p_serve, p_new, p_exact.
  destruct (px_res data 8 []) as [a|e|] eqn:E1; [|intros [H|[]]; discriminate|exact (False_ind _ (px_res_nofuel _ _ _ E1))].
  destruct (px_res (px_rest data 8) 4 []) as [b|e|] eqn:E2;
    [apply p_drain_nofuel|intros [H|[]]; discriminate|exact (False_ind _ (px_res_nofuel _ _ _ E2))].
Qed.

Theorem serve_no_fuel : forall file sched reqs, ~ In IoFuel (serve (UR file sched None) reqs).
Proof. intros. rewrite serve_pure. apply p_serve_nofuel. Qed.

(* ---------- D. faults of the underlying reader surface as errors ---------- *)

Theorem fault_is_error : forall file sched b reqs, b < len file ->
  let out := serve (UR file sched (Some b)) reqs in
  (forall x, In x out -> x <> IoFuel) /\
  (forall i bs, nth_error out i = Some (IoOk bs) ->
                nth_error (serve (UR file sched None) reqs) i = Some (IoOk bs)).
Proof.
  intros file sched b reqs Hb out.
  destruct (serve_sim (UR file sched (Some b)) reqs Hb) as [O _]. cbn [u_data] in O. fold out in O.
  split.
  - intros x Hx ->. exact (orel_nofuel _ _ O (p_serve_nofuel _ _) Hx).
  - rewrite serve_pure. apply orel_ok. exact O.
Qed.

(* the run with a fault is the fault-free run cut short by one error *)
Theorem fault_is_prefix : forall file sched b reqs, b < len file ->
  orel (serve (UR file sched (Some b)) reqs) (serve (UR file sched None) reqs).
Proof. intros. rewrite serve_pure. exact (proj1 (serve_sim (UR file sched (Some b)) reqs H)). Qed.

(* ---------- C. intact streams: the consumer obtains the consecutive slices of the plaintext ---------- *)

(* every chunk fits a frame; empty chunks are allowed here (CryptoProofs.chunks_ok also demands non-empty chunks) *)
Definition chunks_le (cs : list bytes) : Prop := Forall (fun c => len c <= BUFSIZE) cs.

Lemma chunks_ok_le cs : chunks_ok cs -> chunks_le cs.
Proof. apply Forall_impl. intros c [_ H]; exact H. Qed.

Section Intact.
Variable seal : key -> nonce -> bytes -> bytes.
Hypothesis open_seal : forall n c, open k n (seal k n c) = Some c.
Hypothesis seal_length : forall n c, length (seal k n c) = (length c + 16)%nat.

Local Notation F n cs := (fst (frames key seal k n cs)).

Lemma frame_len n c : length (frame key seal k n c) = (8 + (length c + 16))%nat.
Proof. unfold frame. now rewrite app_length, le_length, seal_length. Qed.

Lemma p_exact_app a r w : w = len a -> p_exact (a ++ r) w = (IoOk a, r).
Proof.
  intros ->. unfold p_exact, px_res, px_rest. rewrite app_length.
  destruct (N.leb_spec (len a) (N.of_nat (length a + length r))); [|lia].
  rewrite Nat2N.id, firstn_len_app, skipn_len_app by reflexivity. reflexivity.
Qed.

Lemma p_header_app h r : length h = 8%nat -> p_header (h ++ r) = (HHeader h, r).
Proof.
  intros Hh. unfold p_header, ph_res, ph_rest. cbn [length app]. rewrite app_length.
  destruct (N.leb_spec 8 (N.of_nat 0 + N.of_nat (length h + length r))); [|lia].
  change (N.to_nat (8 - N.of_nat 0)) with 8%nat.
  rewrite firstn_len_app, skipn_len_app by exact Hh. reflexivity.
Qed.

Lemma p_read_have fuel pend n d want : want <= len pend ->
  p_read fuel (PS pend n d) want = (IoOk (firstn (N.to_nat want) pend), PS (skipn (N.to_nat want) pend) n d).
Proof.
  intros H. destruct fuel; cbn [p_read p_pend p_nonce p_data];
    (destruct (N.leb_spec want (len pend)); [reflexivity|lia]).
Qed.

Lemma p_read_frame_step f pend n c rest want : len c <= BUFSIZE -> len pend < want ->
  p_read (S f) (PS pend n (frame key seal k (advance n) c ++ rest)) want =
  p_read f (PS (pend ++ c) (advance n) rest) want.
Proof.
  intros Hc Hp. cbn [p_read p_pend p_nonce p_data].
  destruct (N.leb_spec want (len pend)); [lia|].
  unfold frame. rewrite <- app_assoc. rewrite p_header_app by apply le_length. cbv zeta.
  rewrite unle_le by (rewrite pow_256_8; unfold Bytes.U64, TAGLEN, BUFSIZE in *; lia).
  destruct (N.ltb_spec (BUFSIZE + TAGLEN) (len c + TAGLEN)); [lia|].
  rewrite p_exact_app by (rewrite seal_length; unfold TAGLEN; lia).
  rewrite open_seal. reflexivity.
Qed.

Lemma p_read_frames cs : forall fuel pend n want, chunks_le cs -> (length (F n cs) < fuel)%nat ->
  (want <= len (pend ++ concat cs) -> exists pend' n' cs',
      p_read fuel (PS pend n (F n cs)) want =
      (IoOk (firstn (N.to_nat want) (pend ++ concat cs)), PS pend' n' (F n' cs'))
      /\ pend' ++ concat cs' = skipn (N.to_nat want) (pend ++ concat cs) /\ chunks_le cs')
  /\ (len (pend ++ concat cs) < want -> exists n',
      p_read fuel (PS pend n (F n cs)) want = (IoOk (pend ++ concat cs), PS [] n' [])).
Proof.
  induction cs as [|c r IH]; intros fuel pend n want Hok Hf.
  - destruct (N.leb_spec want (len pend)) as [Hp|Hp].
    + rewrite p_read_have by exact Hp. cbn [concat]. rewrite app_nil_r. split; [|lia].
      intros _. exists (skipn (N.to_nat want) pend), n, []. cbn [concat]. rewrite app_nil_r. auto.
    + destruct fuel as [|f]; [lia|]. cbn [frames fst concat]. rewrite app_nil_r. split; [lia|].
      intros _. exists n. cbn [p_read p_pend p_nonce p_data].
      destruct (N.leb_spec want (len pend)); [lia|]. reflexivity.
  - inversion Hok as [|? ? Hc2 Hr]; subst.
    destruct (N.leb_spec want (len pend)) as [Hp|Hp].
    + rewrite p_read_have by exact Hp. split; [|rewrite app_length; lia].
      intros _. exists (skipn (N.to_nat want) pend), n, (c :: r). repeat split; try assumption.
      * rewrite firstn_app_le by lia. reflexivity.
      * rewrite skipn_app. replace (N.to_nat want - length pend)%nat with O by lia. reflexivity.
    + rewrite frames_cons in *. cbn [fst] in *. rewrite app_length, frame_len in Hf.
      destruct fuel as [|f]; [lia|]. rewrite p_read_frame_step by assumption.
      cbn [concat]. rewrite app_assoc. apply IH; [exact Hr|lia].
Qed.

Lemma p_read_exact_0 fuel s acc : p_read_exact fuel s 0 acc = (IoOk acc, s).
Proof. destruct fuel; reflexivity. Qed.

Lemma p_read_exact_empty f n want acc : 0 < want ->
  fst (p_read_exact (S f) (PS [] n []) want acc) = IoErr IoEof.
Proof.
  intros Hw. cbn [p_read_exact]. destruct (N.eqb_spec want 0); [lia|].
  cbn [p_data length p_read p_pend p_nonce]. destruct (N.leb_spec want (N.of_nat 0)); [lia|]. reflexivity.
Qed.

Lemma p_read_exact_frames fuel pend n cs want acc : chunks_le cs -> (N.to_nat want < fuel)%nat ->
  (want <= len (pend ++ concat cs) -> exists pend' n' cs',
      p_read_exact fuel (PS pend n (F n cs)) want acc =
      (IoOk (acc ++ firstn (N.to_nat want) (pend ++ concat cs)), PS pend' n' (F n' cs'))
      /\ pend' ++ concat cs' = skipn (N.to_nat want) (pend ++ concat cs) /\ chunks_le cs')
  /\ (len (pend ++ concat cs) < want -> fst (p_read_exact fuel (PS pend n (F n cs)) want acc) = IoErr IoEof).
Proof.
  intros Hok Hf. destruct fuel as [|fuel]; [lia|]. cbn [p_read_exact].
  destruct (N.eqb_spec want 0) as [->|Hw].
  - split; [|lia]. intros _. exists pend, n, cs. cbn [N.to_nat firstn skipn]. rewrite app_nil_r. auto.
  - cbn [p_data].
    destruct (p_read_frames cs (S (length (F n cs))) pend n want Hok ltac:(lia)) as [P1 P2].
    split; intros Hw2.
    + destruct (P1 Hw2) as (pend' & n' & cs' & E & Hs & Hok'). rewrite E. cbv iota.
      destruct (firstn (N.to_nat want) (pend ++ concat cs)) as [|x l] eqn:Eb.
      { apply firstn_nil_inv in Eb; lia. }
      assert (Hl : len (x :: l) = want) by (rewrite <- Eb, firstn_length; lia).
      rewrite Hl, N.sub_diag, p_read_exact_0. exists pend', n', cs'. auto.
    + destruct (P2 Hw2) as (n' & E). rewrite E. cbv iota.
      destruct (pend ++ concat cs) as [|x l] eqn:Et; [reflexivity|].
      destruct fuel as [|fuel]; [cbn [length] in Hw2; lia|].
      apply p_read_exact_empty. lia.
Qed.

Lemma p_drain_frames reqs : forall pend n cs, chunks_le cs ->
  p_drain (PS pend n (F n cs)) reqs = slices (pend ++ concat cs) reqs.
Proof.
  induction reqs as [|a r IH]; intros pend n cs Hok; cbn [p_drain slices]; [reflexivity|].
  destruct (p_read_exact_frames (S (N.to_nat a)) pend n cs a [] Hok ltac:(lia)) as [P1 P2].
  destruct (N.leb_spec a (len (pend ++ concat cs))) as [Ha|Ha].
  - destruct (P1 Ha) as (pend' & n' & cs' & E & Hs & Hok'). rewrite E. cbn [app]. f_equal.
    rewrite IH by exact Hok'. now rewrite Hs.
  - specialize (P2 Ha). destruct (p_read_exact (S (N.to_nat a)) (PS pend n (F n cs)) a []) as [x s'].
    cbn [fst] in P2. subst x. reflexivity.
Qed.

Lemma p_new_nonce n0 rest : inr n0 -> p_new (nonce_bytes n0 ++ rest) = IoOk (PS [] n0 rest).
Proof.
  intros [H1 H2]. unfold p_new, nonce_bytes. rewrite <- app_assoc.
  rewrite p_exact_app by (now rewrite le_length). rewrite p_exact_app by (now rewrite le_length).
  rewrite !unle_le; [destruct n0; reflexivity| |].
  - change (256 ^ N.of_nat 4) with U32M. exact H2.
  - rewrite pow_256_8. exact H1.
Qed.

Theorem serve_intact_gen : forall n0 cs reqs sched,
  fst n0 < Bytes.U64 -> snd n0 < U32M -> chunks_le cs ->
  serve (UR (encrypt_chunks key seal k n0 cs) sched None) reqs = slices (concat cs) reqs.
Proof.
  intros n0 cs reqs sched H1 H2 Hok. rewrite serve_pure. unfold p_serve, encrypt_chunks.
  rewrite p_new_nonce by (split; assumption). now rewrite p_drain_frames.
Qed.

Theorem serve_intact : forall n0 cs reqs sched,
  fst n0 < Bytes.U64 -> snd n0 < U32M -> chunks_ok cs ->
  serve (UR (encrypt_chunks key seal k n0 cs) sched None) reqs = slices (concat cs) reqs.
Proof. intros. apply serve_intact_gen; try assumption. now apply chunks_ok_le. Qed.

End Intact.
End Sim.

(* ---------- E. non-vacuity: a toy AEAD (tag = checksum of plaintext and nonce, repeated 16 times) ---------- *)

Module Toy.
Definition ttag (n : nonce) (c : bytes) : bytes := repeat ((fold_right N.add 0 c + fst n + snd n) mod 256) 16.
Definition tseal (_ : unit) (n : nonce) (c : bytes) : bytes := c ++ ttag n c.
Definition topen (_ : unit) (n : nonce) (body : bytes) : option bytes :=
  let m := (length body - 16)%nat in
  if Nat.leb 16 (length body) && bytes_eqb (skipn m body) (ttag n (firstn m body)) then Some (firstn m body) else None.

Definition n0 : nonce := (5, 4294967295).      (* the first advance carries into data1 *)
Definition cs : list bytes := [[1;2;3;4;5]; [6;7;8]].
Definition file : bytes := encrypt_chunks unit tseal tt n0 cs.
Definition tserve := serve unit topen tt.

(* interrupts and 1-byte reads throughout / a few irregular reads, then unlimited *)
Definition sched_slow : list N := concat (repeat [0;1;0;0;1] 60).
Definition sched_odd : list N := [3;0;7;0;0;2;100;1].

Example file_length : length file = 68%nat.
Proof. vm_compute. reflexivity. Qed.

Example two_frames_any_schedule :
  tserve (UR file [] None) [2;4;2;1] = [IoOk [1;2]; IoOk [3;4;5;6]; IoOk [7;8]; IoErr IoEof]
  /\ tserve (UR file sched_slow None) [2;4;2;1] = slices (concat cs) [2;4;2;1]
  /\ tserve (UR file sched_odd None) [2;4;2;1] = slices (concat cs) [2;4;2;1]
  /\ tserve (UR file [] None) [2;4;2;1] = slices (concat cs) [2;4;2;1].
Proof. vm_compute. repeat split; reflexivity. Qed.

(* a request of 0 bytes, a request spanning both frames, a request beyond the end *)
Example spanning_requests :
  tserve (UR file sched_slow None) [0;7;0;1] = [IoOk []; IoOk [1;2;3;4;5;6;7]; IoOk []; IoOk [8]]
  /\ tserve (UR file sched_odd None) [9] = [IoErr IoEof].
Proof. vm_compute. split; reflexivity. Qed.

(* first ciphertext byte of the second frame (offset 12 + 29 + 8) incremented *)
Definition tamper (i : nat) (f : bytes) : bytes := firstn i f ++ [(nth i f 0 + 1) mod 256] ++ skipn (S i) f.
Example tampered_second_frame :
  tserve (UR (tamper 49 file) sched_slow None) [5;1] = [IoOk [1;2;3;4;5]; IoErr IoOther]
  /\ tserve (UR (tamper 49 file) [] None) [6] = [IoErr IoOther].
Proof. vm_compute. split; reflexivity. Qed.

(* cut inside the second frame's body / inside its size header / inside the nonce *)
Example truncated :
  tserve (UR (firstn 60 file) sched_slow None) [5;1] = [IoOk [1;2;3;4;5]; IoErr IoEof]
  /\ tserve (UR (firstn 44 file) sched_odd None) [5;1] = [IoOk [1;2;3;4;5]; IoErr IoEof]
  /\ tserve (UR (firstn 10 file) sched_odd None) [1] = [IoErr IoEof].
Proof. vm_compute. repeat split; reflexivity. Qed.

(* a file that ends at a frame boundary is a (shorter) intact stream: no error until the data runs out *)
Example cut_at_frame_boundary :
  tserve (UR (firstn 41 file) sched_slow None) [5;1] = [IoOk [1;2;3;4;5]; IoErr IoEof].
Proof. vm_compute. reflexivity. Qed.

(* the underlying reader fails after 50 bytes: the first frame is delivered, the next request is an error;
   a consumer that stops before the fault never sees it *)
Example budget_fault :
  tserve (UR file sched_slow (Some 50)) [5;1] = [IoOk [1;2;3;4;5]; IoErr IoOther]
  /\ tserve (UR file sched_odd (Some 50)) [2;4;2;1] = [IoOk [1;2]; IoErr IoOther]
  /\ tserve (UR file [] (Some 5)) [1] = [IoErr IoOther]
  /\ tserve (UR file sched_slow (Some 50)) [5] = [IoOk [1;2;3;4;5]].
Proof. vm_compute. repeat split; reflexivity. Qed.

Example toy_open_seal : topen tt (advance n0) (tseal tt (advance n0) [1;2;3;4;5]) = Some [1;2;3;4;5]
  /\ topen tt n0 (tseal tt (advance n0) [1;2;3;4;5]) = None.
Proof. vm_compute. split; reflexivity. Qed.
End Toy.

Print Assumptions serve_chunking_independent.
Print Assumptions serve_intact.
Print Assumptions fault_is_error.
Print Assumptions serve_no_fuel.
