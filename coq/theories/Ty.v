(* Ty.v — the type universe (library types + what #[derive(Savefile)] accepts), the value
   universe, typing, the Packed decision exactly as library + derive compute it, the documented
   wire format as a structural encoder [enc], and the reader [dec]. Definitions only. *)
From SF Require Import Bytes.
Open Scope N_scope.

Inductive ity := U8 | I8 | U16 | I16 | U32 | I32 | U64 | I64 | U128 | I128 | Usize | Isize.

Definition ity_bytes (k : ity) : nat :=
  match k with
  | U8 | I8 => 1 | U16 | I16 => 2 | U32 | I32 => 4 | U64 | I64 | Usize | Isize => 8 | U128 | I128 => 16
  end%nat.
Definition ity_signed (k : ity) : bool :=
  match k with I8 | I16 | I32 | I64 | I128 | Isize => true | _ => false end.

Definition pow256 (w : nat) : Z := Z.of_N (256 ^ N.of_nat w).

Definition int_lo (k : ity) : Z := if ity_signed k then (- (pow256 (ity_bytes k) / 2))%Z else 0%Z.
Definition int_hi (k : ity) : Z := if ity_signed k then (pow256 (ity_bytes k) / 2)%Z else pow256 (ity_bytes k).
(* two's complement *)
Definition twos (w : nat) (z : Z) : N := Z.to_N (z mod pow256 w).
Definition untwos (signed : bool) (w : nat) (n : N) : Z :=
  if signed && (Z.of_N n >=? pow256 w / 2)%Z then (Z.of_N n - pow256 w)%Z else Z.of_N n.

Inductive val :=
| VInt (z : Z)            (* integers, bool as 0/1, char as scalar value, floats as bit patterns *)
| VStr (b : bytes)
| VSeq (l : list val)
| VNone
| VSome (v : val)
| VOk (v : val)
| VErr (v : val)
| VRec (l : list val)     (* tuples and structs: one entry per declared field *)
| VVar (idx : N) (l : list val)
| VUnit.

Inductive fkind := FNormal | FRemoved | FAbiRemoved | FIgnored.

Record fdef_ (T : Type) := FD {
  fd_ty : T;               (* for Removed<T>/AbiRemoved<T>: T *)
  fd_from : N;
  fd_to : option N;        (* None = no upper bound *)
  fd_kind : fkind;
  fd_default : val         (* value when absent from the file (Default / default_val / default_fn);
                              for AbiRemoved the constructed value that is written *)
}.
Arguments FD {T}. Arguments fd_ty {T}. Arguments fd_from {T}. Arguments fd_to {T}.
Arguments fd_kind {T}. Arguments fd_default {T}.

(* [vd_name]: the variant's identifier (significant for the schema comparison, not for the wire format) *)
Record vdef_ (T : Type) := VD' { vd_name : bytes; vd_from : N; vd_to : option N; vd_fields : list (fdef_ T) }.
Arguments VD' {T}. Arguments vd_name {T}. Arguments vd_from {T}. Arguments vd_to {T}. Arguments vd_fields {T}.
Definition VD {T : Type} (from : N) (to : option N) (fields : list (fdef_ T)) : vdef_ T := VD' [] from to fields.

(* layout facts of an aggregate as the compiler chose them (probed from the real build) *)
(* [l_explicit_discr]: (enums only) some variant declares an explicit discriminant value *)
(* [l_reprc]: (enums only) the repr attribute contains `C` (what the schema records as has_explicit_repr) *)
Record lay := Lay' { l_size : N; l_align : N; l_offs : list N; l_explicit_discr : bool; l_reprc : bool }.
Definition Lay (size align : N) (offs : list N) (explicit_discr : bool) : lay := Lay' size align offs explicit_discr false.

Inductive ty :=
| TInt (k : ity)
| TBool | TChar | TF32 | TF64 | TUnit
| TString
| TVec (t : ty)                 (* Vec<T>, Box<[T]>, Arc<[T]>: bulk path when T is packed *)
| TSeq (t : ty)                 (* VecDeque<T>: length + items, never bulk *)
| TArray (t : ty) (n : N)
| TOption (t : ty)
| TResult (a b : ty)
| TBox (t : ty)                 (* Box/Rc/Arc/RefCell/Mutex/RwLock: transparent, never packed *)
| TCell (t : ty)                (* Cell<T>: transparent, packed iff T *)
| TTuple (l : lay) (ts : list ty)
| TStruct (l : lay) (fs : list (fdef_ ty))
| TEnum (repr : option N) (l : lay) (voffs : list (list N)) (vs : list (vdef_ ty)).

Notation fdef := (fdef_ ty).
Notation vdef := (vdef_ ty).

Definition in_range (from : N) (to : option N) (v : N) : bool :=
  (from <=? v) && match to with None => true | Some t => v <=? t end.
Definition present (v : N) (f : fdef) : bool := in_range (fd_from f) (fd_to f) v.
Definition full_range (f : fdef) : bool :=
  (fd_from f =? 0) && match fd_to f with None => true | Some _ => false end.
Definition is_removed (f : fdef) : bool :=
  match fd_kind f with FRemoved | FAbiRemoved => true | _ => false end.
Definition is_ignored (f : fdef) : bool :=
  match fd_kind f with FIgnored => true | _ => false end.

(* get_enum_size: explicit repr, else 1/2/4 by variant count (thresholds 256 / 65536) *)
Definition dwidth (repr : option N) (nvariants : nat) : nat :=
  match repr with
  | Some w => N.to_nat w
  | None => if (N.of_nat nvariants <=? 256) then 1%nat else if (N.of_nat nvariants <=? 65536) then 2%nat else 4%nat
  end.

(* AttrsResult::min_safe_version *)
Definition min_safe_of (from : N) (to : option N) : N :=
  N.max (match to with Some t => t + 1 | None => 0 end) from.

(* ------------------------------------------------------------------ *)
(* size_of for the types that can take part in a packed aggregate (others never matter:
   the decision is already false). A removed field is a zero-sized Removed<T>. *)
Fixpoint size_of (t : ty) : N :=
  match t with
  | TInt k => N.of_nat (ity_bytes k)
  | TBool => 1 | TChar => 4 | TF32 => 4 | TF64 => 8 | TUnit => 0
  | TArray t n => n * size_of t
  | TCell t => size_of t
  | TTuple l _ => l_size l
  | TStruct l _ => l_size l
  | TEnum _ l _ _ => l_size l
  (* heap-backed / niche-optimised types are never part of a packed aggregate and have no modelled image:
     their size is irrelevant to every decision and is taken as 0 (a lower bound of the real size) *)
  | TString | TVec _ | TSeq _ | TBox _ | TOption _ | TResult _ _ => 0
  end.
Definition fsize (f : fdef) : N := if is_removed f then 0 else size_of (fd_ty f).

(* offset chain of implement_reprc_struct: windows(2), first at 0, last ends at size_of *)
Fixpoint chain_ok (offs : list N) (sizes : list N) : bool :=
  match offs, sizes with
  | o1 :: ((o2 :: _) as ro), s1 :: rs => (o1 + s1 =? o2) && chain_ok ro rs
  | _, _ => true
  end.
Definition struct_chain (total : N) (offs sizes : list N) : bool :=
  match offs, sizes with
  | [], _ => true
  | o0 :: _, _ =>
      chain_ok offs sizes && (o0 =? 0)
      && (last offs 0 + last sizes 0 =? total)
      && Nat.eqb (length offs) (length sizes)
  end.

(* per-variant conditions of derive_reprc_new *)
Fixpoint variant_chain (total : N) (prev_end : N) (offs sizes : list N) : bool :=
  match offs, sizes with
  | [], [] => prev_end =? total
  | o :: ro, s :: rs => (o =? prev_end) && variant_chain total (o + s) ro rs
  | _, _ => false
  end.

Fixpoint packed (v : N) (t : ty) : bool :=
  match t with
  | TInt Usize | TInt Isize => false
  | TInt _ | TBool | TChar | TF32 | TF64 | TUnit => true
  | TString | TVec _ | TSeq _ | TOption _ | TResult _ _ | TBox _ => false
  | TArray t _ => packed v t
  | TCell t => packed v t
  | TTuple l ts =>
      match ts, l_offs l with
      | [t1], [o0] => (o0 =? 0) && (size_of t1 =? l_size l) && packed v t1
      | [t1; t2], o0 :: _ => (o0 =? 0) && (size_of t1 + size_of t2 =? l_size l) && packed v t1 && packed v t2
      | [t1; t2; t3], o0 :: o1 :: _ =>
          (o0 =? 0) && (o1 =? size_of t1) && (size_of t1 + size_of t2 + size_of t3 =? l_size l)
          && packed v t1 && packed v t2 && packed v t3
      | [t1; t2; t3; t4], o0 :: o1 :: o2 :: _ =>
          (o0 =? 0) && (o1 =? size_of t1) && (o2 =? size_of t1 + size_of t2)
          && (size_of t1 + size_of t2 + size_of t3 + size_of t4 =? l_size l)
          && packed v t1 && packed v t2 && packed v t3 && packed v t4
      | _, _ => false
      end
  | TStruct l fs =>
      negb (existsb is_ignored fs)
      && negb (existsb (fun f => full_range f && is_removed f) fs)
      && struct_chain (l_size l) (l_offs l) (map fsize fs)
      && (fold_right (fun f acc => if full_range f then acc else N.max acc (min_safe_of (fd_from f) (fd_to f))) 0 fs <=? v)
      && forallb (fun f => is_removed f && negb (full_range f) || packed v (fd_ty f)) fs
  | TEnum repr l voffs vs =>
      match repr with
      | None => false
      | Some w =>
          negb (l_explicit_discr l)
          && negb (existsb (fun vd => existsb is_ignored (vd_fields vd)) vs)
          && (fix go (voffs : list (list N)) (vs : list vdef) : bool :=
                match voffs, vs with
                | offs :: ro, vd :: rv =>
                    (match vd_fields vd with
                     | [] => true
                     | _ => variant_chain (l_size l) w offs (map fsize (vd_fields vd))
                     end) && go ro rv
                | [], [] => true
                | _, _ => false
                end) voffs vs
          && (fold_right (fun vd acc =>
                fold_right (fun f acc =>
                  N.max (N.max acc (min_safe_of (fd_from f) (fd_to f)))
                        (if is_removed f then match fd_to f with Some t => t + 1 | None => 0 end else 0))
                  acc (vd_fields vd)) 0 vs <=? v)
          && forallb (fun vd => forallb (fun f => is_removed f || packed v (fd_ty f)) (vd_fields vd)) vs
      end
  end.

(* ------------------------------------------------------------------ *)
(* Typing: which values inhabit a type (boolean, so that generated cases can be checked). *)

Definition char_ok (z : Z) : bool :=
  ((0 <=? z) && (z <? 55296) || (57344 <=? z) && (z <? 1114112))%Z.

Definition SEQ_LIMIT : N := 1000000.

Fixpoint has_ty (t : ty) (x : val) {struct t} : bool :=
  let fields_ok := fix fields_ok (fs : list fdef) (xs : list val) {struct fs} : bool :=
      match fs, xs with
      | [], [] => true
      | f :: rf, y :: ry =>
          (if is_removed f then match y with VUnit => true | _ => false end else has_ty (fd_ty f) y)
          && (if is_removed f then match fd_kind f with FAbiRemoved => has_ty (fd_ty f) (fd_default f) | _ => true end
              else if full_range f && negb (is_ignored f) then true   (* never absent: the default is never used *)
              else has_ty (fd_ty f) (fd_default f))
          && fields_ok rf ry
      | _, _ => false
      end in
  match t, x with
  | TInt k, VInt z => ((int_lo k <=? z) && (z <? int_hi k))%Z
  | TBool, VInt z => ((z =? 0) || (z =? 1))%Z
  | TChar, VInt z => char_ok z
  | TF32, VInt z => ((0 <=? z) && (z <? 4294967296))%Z
  | TF64, VInt z => ((0 <=? z) && (z <? 18446744073709551616))%Z
  | TUnit, VUnit => true
  | TString, VStr b => (N.of_nat (length b) <=? STRING_LIMIT) && utf8_valid b && wfbb b
  | TVec t, VSeq l => (N.of_nat (length l) <=? SEQ_LIMIT) && forallb (has_ty t) l
  | TSeq t, VSeq l => (N.of_nat (length l) <=? SEQ_LIMIT) && forallb (has_ty t) l
  | TArray t n, VSeq l => (N.of_nat (length l) =? n) && forallb (has_ty t) l
  | TOption t, VNone => true
  | TOption t, VSome y => has_ty t y
  | TResult a b, VOk y => has_ty a y
  | TResult a b, VErr y => has_ty b y
  | TBox t, y => has_ty t y
  | TCell t, y => has_ty t y
  | TTuple _ ts, VRec xs =>
      (fix go (ts : list ty) (xs : list val) {struct ts} : bool :=
         match ts, xs with
         | [], [] => true
         | t :: rt, y :: ry => has_ty t y && go rt ry
         | _, _ => false
         end) ts xs
  | TStruct _ fs, VRec xs => fields_ok fs xs
  | TEnum repr _ _ vs, VVar idx xs =>
      (idx <? 256 ^ N.of_nat (dwidth repr (length vs))) &&
      (fix pick (vs : list vdef) (i : nat) {struct vs} : bool :=
         match vs, i with
         | vd :: _, O => fields_ok (vd_fields vd) xs
         | _ :: rv, S j => pick rv j
         | [], _ => false
         end) vs (N.to_nat idx)
  | _, _ => false
  end.

(* well-formed definitions: what the derive accepts and the documented evolution rules allow *)
Fixpoint wf_ty (t : ty) : bool :=
  let wf_f := fun f : fdef =>
      wf_ty (fd_ty f)
      && match fd_to f with Some hi => fd_from f <=? hi | None => true end
      && match fd_kind f with
         | FNormal | FIgnored => match fd_to f with None => true | Some _ => false end
         | FRemoved | FAbiRemoved => match fd_to f with Some _ => true | None => false end
         end in
  match t with
  | TVec t | TSeq t | TOption t | TBox t | TCell t => wf_ty t
  | TArray t n => wf_ty t && (n <? 100000)
  | TResult a b => wf_ty a && wf_ty b
  | TTuple _ ts => forallb wf_ty ts && Nat.leb 1 (length ts) && Nat.leb (length ts) 4
  | TStruct _ fs => forallb wf_f fs
  | TEnum repr _ _ vs =>
      match repr with Some w => (w =? 1) || (w =? 2) || (w =? 4) | None => true end
      && (N.of_nat (length vs) <=? 256 ^ N.of_nat (dwidth repr (length vs)))
      && forallb (fun vd : vdef => forallb wf_f (vd_fields vd)
                    && match vd_to vd with Some hi => vd_from vd <=? hi | None => true end) vs
  | _ => true
  end.

(* ------------------------------------------------------------------ *)
(* The documented wire format. Panic models the panics of Removed::serialize and of saving an
   enum variant that does not exist at the written version. *)

Fixpoint concat_res (l : list (res bytes)) : res bytes :=
  match l with
  | [] => Ok []
  | r :: rest => let* a := r in let* b := concat_res rest in Ok (a ++ b)
  end.

Fixpoint enc (v : N) (t : ty) (x : val) {struct t} : res bytes :=
  let enc_fields := fix enc_fields (fs : list fdef) (xs : list val) {struct fs} : res bytes :=
      match fs, xs with
      | [], [] => Ok []
      | f :: rf, y :: ry =>
          let* a :=
            (match fd_kind f with
             | FIgnored => Ok []
             | FNormal => if present v f then enc v (fd_ty f) y else Ok []
             | FRemoved => if present v f then Panic else Ok []
             | FAbiRemoved => if present v f then enc v (fd_ty f) (fd_default f) else Ok []
             end) in
          let* b := enc_fields rf ry in
          Ok (a ++ b)
      | _, _ => Err EOther
      end in
  match t, x with
  | TInt k, VInt z => Ok (le (ity_bytes k) (twos (ity_bytes k) z))
  | TBool, VInt z => Ok [if (z =? 0)%Z then 0 else 1]
  | TChar, VInt z => Ok (le 4 (Z.to_N z))
  | TF32, VInt z => Ok (le 4 (Z.to_N z))
  | TF64, VInt z => Ok (le 8 (Z.to_N z))
  | TUnit, VUnit => Ok []
  | TString, VStr b => Ok (enc_string b)
  | TVec t, VSeq l => let* body := concat_res (map (enc v t) l) in Ok (enc_usize (N.of_nat (length l)) ++ body)
  | TSeq t, VSeq l => let* body := concat_res (map (enc v t) l) in Ok (enc_usize (N.of_nat (length l)) ++ body)
  | TArray t n, VSeq l => concat_res (map (enc v t) l)
  | TOption t, VNone => Ok [0]
  | TOption t, VSome y => let* b := enc v t y in Ok (1 :: b)
  | TResult a b, VOk y => let* r := enc v a y in Ok (1 :: r)
  | TResult a b, VErr y => let* r := enc v b y in Ok (0 :: r)
  | TBox t, y => enc v t y
  | TCell t, y => enc v t y
  | TTuple _ ts, VRec xs =>
      (fix go (ts : list ty) (xs : list val) {struct ts} : res bytes :=
         match ts, xs with
         | [], [] => Ok []
         | t :: rt, y :: ry => let* a := enc v t y in let* b := go rt ry in Ok (a ++ b)
         | _, _ => Err EOther
         end) ts xs
  | TStruct _ fs, VRec xs => enc_fields fs xs
  | TEnum repr _ _ vs, VVar idx xs =>
      (fix pick (vs0 : list vdef) (i : nat) {struct vs0} : res bytes :=
         match vs0, i with
         | vd :: _, O =>
             if in_range (vd_from vd) (vd_to vd) v then
               let* b := enc_fields (vd_fields vd) xs in
               Ok (le (dwidth repr (length vs)) idx ++ b)
             else Panic
         | _ :: rv, S j => pick rv j
         | [], _ => Err EOther
         end) vs (N.to_nat idx)
  | _, _ => Err EOther
  end.

(* ------------------------------------------------------------------ *)
(* The reader. *)

Fixpoint read_n {A} (rd : reader A) (fuel : nat) (count : N) (bs : bytes) : res (list A * bytes) :=
  if count =? 0 then Ok ([], bs) else
  match fuel with
  | O => OutOfFuel
  | S f =>
      let* (x, r) := rd bs in
      let* (xs, r') := read_n rd f (count - 1) r in
      Ok (x :: xs, r')
  end.

Definition seq_fuel (count : N) (bs : bytes) : nat :=
  (S (length bs) + N.to_nat (N.min count SEQ_LIMIT))%nat.

Fixpoint dec (v : N) (t : ty) {struct t} : reader val :=
  let dec_fields := fix dec_fields (fs : list fdef) {struct fs} : reader (list val) :=
      fun bs =>
      match fs with
      | [] => Ok ([], bs)
      | f :: rf =>
          let* (y, r) :=
            (match fd_kind f with
             | FIgnored => Ok (fd_default f, bs)
             | FNormal => if present v f then dec v (fd_ty f) bs else Ok (fd_default f, bs)
             | FRemoved | FAbiRemoved =>
                 if present v f then let* (_, r) := dec v (fd_ty f) bs in Ok (VUnit, r) else Ok (VUnit, bs)
             end) in
          let* (ys, r') := dec_fields rf r in
          Ok (y :: ys, r')
      end in
  match t with
  | TInt k => fun bs => let* (n, r) := rd_le (ity_bytes k) bs in Ok (VInt (untwos (ity_signed k) (ity_bytes k) n), r)
  | TBool => fun bs => let* (b, r) := rd_u8 bs in Ok (VInt (if b =? 1 then 1 else 0), r)
  | TChar => fun bs => let* (n, r) := rd_le 4 bs in
                       if char_ok (Z.of_N n) then Ok (VInt (Z.of_N n), r) else Err EInvalidChar
  | TF32 => fun bs => let* (n, r) := rd_le 4 bs in Ok (VInt (Z.of_N n), r)
  | TF64 => fun bs => let* (n, r) := rd_le 8 bs in Ok (VInt (Z.of_N n), r)
  | TUnit => fun bs => Ok (VUnit, bs)
  | TString => fun bs => let* (s, r) := rd_string bs in Ok (VStr s, r)
  | TVec t => fun bs =>
      let* (n, r) := rd_usize bs in
      if negb (packed v t) && (SEQ_LIMIT <? n) then Err EGeneral else
      let* (xs, r') := read_n (dec v t) (seq_fuel n r) n r in Ok (VSeq xs, r')
  | TSeq t => fun bs =>
      let* (n, r) := rd_usize bs in
      let* (xs, r') := read_n (dec v t) (seq_fuel n r) n r in Ok (VSeq xs, r')
  | TArray t n => fun bs =>
      let* (xs, r') := read_n (dec v t) (N.to_nat n) n bs in Ok (VSeq xs, r')
  | TOption t => fun bs =>
      let* (b, r) := rd_bool bs in
      if b then let* (y, r') := dec v t r in Ok (VSome y, r') else Ok (VNone, r)
  | TResult a b => fun bs =>
      let* (tag, r) := rd_bool bs in
      if tag then let* (y, r') := dec v a r in Ok (VOk y, r')
      else let* (y, r') := dec v b r in Ok (VErr y, r')
  | TBox t => dec v t
  | TCell t => dec v t
  | TTuple _ ts => fun bs =>
      let* (ys, r) :=
        (fix go (ts : list ty) {struct ts} : reader (list val) :=
           fun bs =>
           match ts with
           | [] => Ok ([], bs)
           | t :: rt => let* (y, r) := dec v t bs in let* (ys, r') := go rt r in Ok (y :: ys, r')
           end) ts bs in
      Ok (VRec ys, r)
  | TStruct _ fs => fun bs => let* (ys, r) := dec_fields fs bs in Ok (VRec ys, r)
  | TEnum repr _ _ vs => fun bs =>
      let* (idx, r) := rd_le (dwidth repr (length vs)) bs in
      if N.of_nat (length vs) <=? idx then Err EGeneral else
      (fix pick (vs0 : list vdef) (i : nat) {struct vs0} : res (val * bytes) :=
         match vs0, i with
         | vd :: _, O => let* (ys, r') := dec_fields (vd_fields vd) r in Ok (VVar idx ys, r')
         | _ :: rv, S j => pick rv j
         | [], _ => Err EGeneral
         end) vs (N.to_nat idx)
  end.

(* what comes back from a load at version v: absent and ignored fields hold their defaults,
   removed fields are unit *)
Fixpoint norm (v : N) (t : ty) (x : val) {struct t} : val :=
  let norm_fields := fix norm_fields (fs : list fdef) (xs : list val) {struct fs} : list val :=
      match fs, xs with
      | f :: rf, y :: ry =>
          (match fd_kind f with
           | FIgnored => fd_default f
           | FNormal => if present v f then norm v (fd_ty f) y else fd_default f
           | FRemoved | FAbiRemoved => VUnit
           end) :: norm_fields rf ry
      | _, _ => []
      end in
  match t, x with
  | TVec t, VSeq l => VSeq (map (norm v t) l)
  | TSeq t, VSeq l => VSeq (map (norm v t) l)
  | TArray t _, VSeq l => VSeq (map (norm v t) l)
  | TOption t, VSome y => VSome (norm v t y)
  | TResult a _, VOk y => VOk (norm v a y)
  | TResult _ b, VErr y => VErr (norm v b y)
  | TBox t, y => norm v t y
  | TCell t, y => norm v t y
  | TTuple _ ts, VRec xs =>
      VRec ((fix go (ts : list ty) (xs : list val) {struct ts} : list val :=
               match ts, xs with
               | t :: rt, y :: ry => norm v t y :: go rt ry
               | _, _ => []
               end) ts xs)
  | TStruct _ fs, VRec xs => VRec (norm_fields fs xs)
  | TEnum _ _ _ vs, VVar idx xs =>
      VVar idx ((fix pick (vs0 : list vdef) (i : nat) {struct vs0} : list val :=
                   match vs0, i with
                   | vd :: _, O => norm_fields (vd_fields vd) xs
                   | _ :: rv, S j => pick rv j
                   | [], _ => xs
                   end) vs (N.to_nat idx))
  | _, y => y
  end.

(* a value can be written at version v: no Removed field present at v, every enum variant used exists at v *)
Fixpoint writable (v : N) (t : ty) (x : val) {struct t} : bool :=
  let w_fields := fix w_fields (fs : list fdef) (xs : list val) {struct fs} : bool :=
      match fs, xs with
      | f :: rf, y :: ry =>
          (match fd_kind f with
           | FIgnored => true
           | FNormal => if present v f then writable v (fd_ty f) y else true
           | FRemoved => negb (present v f)
           | FAbiRemoved => if present v f then writable v (fd_ty f) (fd_default f) else true
           end) && w_fields rf ry
      | _, _ => true
      end in
  match t, x with
  | TVec t, VSeq l | TSeq t, VSeq l | TArray t _, VSeq l => forallb (writable v t) l
  | TOption t, VSome y => writable v t y
  | TResult a _, VOk y => writable v a y
  | TResult _ b, VErr y => writable v b y
  | TBox t, y | TCell t, y => writable v t y
  | TTuple _ ts, VRec xs =>
      (fix go (ts : list ty) (xs : list val) {struct ts} : bool :=
         match ts, xs with
         | t :: rt, y :: ry => writable v t y && go rt ry
         | _, _ => true
         end) ts xs
  | TStruct _ fs, VRec xs => w_fields fs xs
  | TEnum _ _ _ vs, VVar idx xs =>
      (fix pick (vs0 : list vdef) (i : nat) {struct vs0} : bool :=
         match vs0, i with
         | vd :: _, O => in_range (vd_from vd) (vd_to vd) v && w_fields (vd_fields vd) xs
         | _ :: rv, S j => pick rv j
         | [], _ => false
         end) vs (N.to_nat idx)
  | _, _ => true
  end.

(* decidable equality on values, for the correspondence cases *)
Fixpoint val_eqb (a b : val) {struct a} : bool :=
  let list_eqb := fix list_eqb (l1 l2 : list val) {struct l1} : bool :=
      match l1, l2 with
      | [], [] => true
      | x :: r1, y :: r2 => val_eqb x y && list_eqb r1 r2
      | _, _ => false
      end in
  match a, b with
  | VInt x, VInt y => (x =? y)%Z
  | VStr x, VStr y => bytes_eqb x y
  | VSeq x, VSeq y => list_eqb x y
  | VNone, VNone => true
  | VSome x, VSome y => val_eqb x y
  | VOk x, VOk y => val_eqb x y
  | VErr x, VErr y => val_eqb x y
  | VRec x, VRec y => list_eqb x y
  | VVar i x, VVar j y => (i =? j) && list_eqb x y
  | VUnit, VUnit => true
  | _, _ => false
  end.
