(* VersionProofs.v — proofs about schema-evolution histories (Version.v): C03 / C18. *)
From SF Require Import Bytes Ty TyProofs Version.
Open Scope N_scope.

(* ------------------------------------------------------------------ *)
(* Closed examples first. *)

(* 5. a removal by plain Removed<T> (not AbiRemoved) makes writing the old version panic *)
Theorem write_old_removed_panics :
  let base := [FD (TInt U8) 0 None FNormal VUnit; FD (TInt U16) 0 None FNormal VUnit] in
  let es := [ERemove 1 false] in
  valid_history base es = true /\
  enc 0 (TStruct (Lay 1 1 [0;1] false) (annotated base es 1)) (VRec [VInt 3; VUnit]) = Panic.
Proof. split; vm_compute; reflexivity. Qed.

(* 6. non-vacuity example *)
Example history_example :
  let base := [FD (TInt U8) 0 None FNormal VUnit; FD TString 0 None FNormal VUnit] in
  let es := [EAdd 1 (TInt U32) (VInt 7); ERemove 0 true] in
  valid_history base es = true
  /\ (exists b, enc 0 (TStruct (Lay 0 0 [] false) (annotated base es 0)) (VRec [VInt 5; VStr [104]]) = Ok b
      /\ dec 0 (TStruct (Lay 0 0 [] false) (annotated base es 2)) b = Ok (VRec [VUnit; VInt 7; VStr [104]], [])).
Proof.
  split; [vm_compute; reflexivity|].
  eexists. split; vm_compute; reflexivity.
Qed.

(* ------------------------------------------------------------------ *)
(* 1. wire_tys and the edits. *)

Definition wt1 (v : N) (f : fdef) : list ty :=
  if negb (is_ignored f) && present v f then [fd_ty f] else [].

Lemma wire_tys_cons v f fs : wire_tys v (f :: fs) = wt1 v f ++ wire_tys v fs.
Proof. reflexivity. Qed.

Lemma wire_tys_insert_at v x :
  wt1 v x = [] -> forall pos fs, wire_tys v (insert_at pos x fs) = wire_tys v fs.
Proof.
  intros Hx. induction pos as [|pos IH]; intros fs.
  - destruct fs; cbn [insert_at]; rewrite wire_tys_cons, Hx; reflexivity.
  - destruct fs as [|y fs]; cbn [insert_at].
    + rewrite wire_tys_cons, Hx. reflexivity.
    + rewrite !wire_tys_cons, IH. reflexivity.
Qed.

Lemma wire_tys_update_at v g :
  (forall f, wt1 v (g f) = wt1 v f) ->
  forall pos fs, wire_tys v (update_at pos g fs) = wire_tys v fs.
Proof.
  intros Hg. induction pos as [|pos IH]; intros [|y fs]; cbn [update_at]; try reflexivity.
  - rewrite !wire_tys_cons, Hg. reflexivity.
  - rewrite !wire_tys_cons, IH. reflexivity.
Qed.

Lemma wt1_remove_field k ver abi f : k < ver -> wt1 k (remove_field ver abi f) = wt1 k f.
Proof.
  intros Hlt. unfold remove_field.
  destruct f as [t from to kind d]. cbn [fd_kind fd_to fd_ty fd_from fd_default].
  destruct kind; try reflexivity. destruct to; try reflexivity.
  unfold wt1, is_ignored, present, in_range. cbn [fd_kind fd_to fd_ty fd_from].
  replace (k <=? ver - 1) with true by (symmetry; apply N.leb_le; lia).
  destruct abi; reflexivity.
Qed.

Lemma wire_tys_apply_edit k ver fs e :
  k < ver -> wire_tys k (apply_edit ver fs e) = wire_tys k fs.
Proof.
  intros Hlt. destruct e as [pos t d|pos abi]; cbn [apply_edit].
  - apply wire_tys_insert_at. unfold wt1, present, in_range. cbn [fd_from fd_to fd_kind].
    replace (ver <=? k) with false by (symmetry; apply N.leb_gt; lia).
    rewrite andb_false_l, andb_false_r. reflexivity.
  - apply wire_tys_update_at. intros f. apply wt1_remove_field. exact Hlt.
Qed.

(* later edits do not change what is on the wire at k *)
Lemma wire_tys_later k : forall es ver fs u,
  k < ver -> wire_tys k (annotated_from ver fs es u) = wire_tys k fs.
Proof.
  induction es as [|e es IH]; intros ver fs u Hlt; destruct u; cbn [annotated_from]; try reflexivity.
  rewrite IH by lia. apply wire_tys_apply_edit; exact Hlt.
Qed.

Lemma annotated_from_split : forall a ver fs es b,
  annotated_from ver fs es (a + b)
  = annotated_from (ver + N.of_nat a) (annotated_from ver fs es a) (skipn a es) b.
Proof.
  induction a as [|a IH]; intros ver fs es b.
  - cbn [Nat.add skipn]. replace (ver + N.of_nat 0) with ver by lia.
    destruct es; reflexivity.
  - destruct es as [|e es].
    + cbn [Nat.add annotated_from skipn]. destruct b; reflexivity.
    + cbn [Nat.add annotated_from skipn]. rewrite IH.
      replace (ver + 1 + N.of_nat a) with (ver + N.of_nat (S a)) by lia. reflexivity.
Qed.

Theorem wire_invariant : forall base es k j, valid_history base es = true -> (k <= j)%nat ->
  wire_tys (N.of_nat k) (annotated base es j) = wire_tys (N.of_nat k) (annotated base es k).
Proof.
  intros base es k j _ Hle. unfold annotated.
  replace j with (k + (j - k))%nat by lia.
  rewrite annotated_from_split. apply wire_tys_later. lia.
Qed.

(* ------------------------------------------------------------------ *)
(* 2. Transfer between a writer and a reader field list. *)

Definition encp (v : N) (p : ty * val) (c : bytes) : Prop := enc v (fst p) (snd p) = Ok c.

(* the writer's output is the concatenation of the encodings of what it writes *)
Lemma eflds_wire v : forall fs xs b, eflds v (enc v) fs xs = Ok b ->
  exists cs, Forall2 (encp v) (wire_written v fs xs) cs /\ b = concat cs.
Proof.
  induction fs as [|f fs IH]; intros [|y ys] b He; cbn [eflds] in He; try discriminate.
  - inversion He; subst. exists []. split; [constructor|reflexivity].
  - apply bind_ok in He as (a & Ha & He). apply bind_ok in He as (b' & Hb & He).
    inversion He; subst b; clear He.
    destruct (IH ys b' Hb) as (cs & Hcs & ->).
    cbn [wire_written]. unfold efield in Ha.
    destruct (fd_kind f); destruct (present v f); try discriminate;
      try (inversion Ha; subst a; exists cs; split; [exact Hcs|reflexivity]).
    + exists (a :: cs). split; [constructor; [exact Ha|exact Hcs]|reflexivity].
    + exists (a :: cs). split; [constructor; [exact Ha|exact Hcs]|reflexivity].
Qed.

Definition okp (v : N) (p : ty * val) : Prop :=
  has_ty (fst p) (snd p) = true /\ writable v (fst p) (snd p) = true.

Lemma dflds_wire v : forall fsR ws cs r,
  map fst ws = wire_tys v fsR ->
  Forall (okp v) ws ->
  Forall2 (encp v) ws cs ->
  dflds v (dec v) fsR (concat cs ++ r)
  = Ok (fill v fsR (map (fun p => norm v (fst p) (snd p)) ws), r).
Proof.
  induction fsR as [|f fs IH]; intros ws cs r Hty Hok Henc.
  - cbn [wire_tys flat_map] in Hty. destruct ws; [|discriminate].
    inversion Henc; subst. reflexivity.
  - rewrite wire_tys_cons in Hty. unfold wt1, is_ignored in Hty.
    cbn [dflds fill]. unfold dfield.
    destruct (fd_kind f) eqn:Hk; cbn [negb andb] in Hty;
      destruct (present v f) eqn:Hp; cbn [app] in Hty;
      try (cbn [bind]; rewrite (IH ws cs r Hty Hok Henc); reflexivity);
      (destruct ws as [|[t y] ws]; [discriminate|]);
      cbn [map fst] in Hty; injection Hty as Ht Hty; subst t;
      inversion Hok as [|? ? [Hh Hw] Hok']; subst;
      inversion Henc as [|? c ? cs' Hc Henc']; subst;
      unfold encp in Hc; cbn [fst snd] in Hh, Hw, Hc;
      cbn [concat map fst snd]; rewrite <- app_assoc;
      rewrite (dec_enc_roundtrip v _ _ _ Hh Hw Hc); cbn [bind];
      rewrite (IH ws cs' r Hty Hok' Henc'); reflexivity.
Qed.

Theorem fields_transfer : forall v fsW fsR xs b,
  map fst (wire_written v fsW xs) = wire_tys v fsR ->
  Forall (fun p => has_ty (fst p) (snd p) = true /\ writable v (fst p) (snd p) = true) (wire_written v fsW xs) ->
  eflds v (enc v) fsW xs = Ok b ->
  forall r, dflds v (dec v) fsR (b ++ r) = Ok (fill v fsR (map (fun p => norm v (fst p) (snd p)) (wire_written v fsW xs)), r).
Proof.
  intros v fsW fsR xs b Hty Hok He r.
  destruct (eflds_wire v fsW xs b He) as (cs & Hcs & ->).
  apply dflds_wire; assumption.
Qed.

(* ------------------------------------------------------------------ *)
(* A successful encoding implies writability (no typing needed). *)

Definition EW (v : N) (t : ty) : Prop := forall x b, enc v t x = Ok b -> writable v t x = true.

Lemma concat_res_ok (E : val -> res bytes) : forall l b,
  concat_res (map E l) = Ok b -> forall x, In x l -> exists c, E x = Ok c.
Proof.
  induction l as [|y l IH]; intros b He x Hin; [destruct Hin|].
  cbn [map concat_res] in He.
  apply bind_ok in He as (a & Ha & He). apply bind_ok in He as (b' & Hb & _).
  destruct Hin as [<-|Hin]; [eauto|]. eapply IH; eassumption.
Qed.

Lemma EW_forallb v t l b :
  EW v t -> concat_res (map (enc v t) l) = Ok b -> forallb (writable v t) l = true.
Proof.
  intros IH He. apply forallb_forall. intros x Hx.
  destruct (concat_res_ok _ _ _ He x Hx) as (c & Hc). eapply IH; exact Hc.
Qed.

Lemma etup_wtup v ts :
  Forall (EW v) ts -> forall xs b, etup (enc v) ts xs = Ok b -> wtup (writable v) ts xs = true.
Proof.
  induction 1 as [|t ts Ht _ IH]; intros [|y ys] b He; cbn [etup wtup] in *;
    try reflexivity; try discriminate.
  apply bind_ok in He as (a & Ha & He). apply bind_ok in He as (b' & Hb & _).
  rewrite (Ht _ _ Ha), (IH _ _ Hb). reflexivity.
Qed.

Lemma efield_wfield v f y a :
  EW v (fd_ty f) -> efield v (enc v) f y = Ok a -> wfield v (writable v) f y = true.
Proof.
  unfold efield, wfield; intros IH He.
  destruct (fd_kind f); destruct (present v f); try reflexivity; try discriminate;
    eapply IH; exact He.
Qed.

Lemma eflds_wflds v fs :
  Pfs (EW v) fs -> forall xs b, eflds v (enc v) fs xs = Ok b -> wflds v (writable v) fs xs = true.
Proof.
  induction 1 as [|f fs Hf _ IH]; intros [|y ys] b He; cbn [eflds wflds] in *;
    try reflexivity; try discriminate.
  apply bind_ok in He as (a & Ha & He). apply bind_ok in He as (b' & Hb & _).
  rewrite (efield_wfield v f y a Hf Ha), (IH _ _ Hb). reflexivity.
Qed.

Lemma ew_all v t : EW v t.
Proof.
  induction t using ty_ind'; intros x b He.
  - destruct x; reflexivity.
  - destruct x; reflexivity.
  - destruct x; reflexivity.
  - destruct x; reflexivity.
  - destruct x; reflexivity.
  - destruct x; reflexivity.
  - destruct x; reflexivity.
  - (* TVec *)
    destruct x; try reflexivity. rewrite enc_TVec in He. rewrite writable_TVec.
    apply bind_ok in He as (body & Hb & _). eapply EW_forallb; eassumption.
  - (* TSeq *)
    destruct x; try reflexivity. rewrite enc_TSeq in He. rewrite writable_TSeq.
    apply bind_ok in He as (body & Hb & _). eapply EW_forallb; eassumption.
  - (* TArray *)
    destruct x; try reflexivity. rewrite enc_TArray in He. rewrite writable_TArray.
    eapply EW_forallb; eassumption.
  - (* TOption *)
    destruct x; try reflexivity. rewrite enc_TOption_some in He. rewrite writable_TOption_some.
    apply bind_ok in He as (c & Hc & _). eapply IHt; exact Hc.
  - (* TResult *)
    destruct x; try reflexivity.
    + rewrite enc_TResult_ok in He. rewrite writable_TResult_ok.
      apply bind_ok in He as (c & Hc & _). eapply IHt1; exact Hc.
    + rewrite enc_TResult_err in He. rewrite writable_TResult_err.
      apply bind_ok in He as (c & Hc & _). eapply IHt2; exact Hc.
  - (* TBox *)
    rewrite enc_TBox in He. rewrite writable_TBox. eapply IHt; exact He.
  - (* TCell *)
    rewrite enc_TCell in He. rewrite writable_TCell. eapply IHt; exact He.
  - (* TTuple *)
    destruct x; try reflexivity. rewrite enc_TTuple in He. rewrite writable_TTuple.
    eapply etup_wtup; eassumption.
  - (* TStruct *)
    destruct x; try reflexivity. rewrite enc_TStruct in He. rewrite writable_TStruct.
    eapply eflds_wflds; eassumption.
  - (* TEnum *)
    destruct x; try discriminate. rewrite enc_TEnum in He. rewrite writable_TEnum.
    rewrite pickg_nth in *.
    destruct (nth_error vs (N.to_nat idx)) as [vd|] eqn:Hn; [|discriminate].
    destruct (in_range (vd_from vd) (vd_to vd) v); [|discriminate].
    apply bind_ok in He as (c & Hc & _). cbn [andb].
    unfold Pvs in H. rewrite Forall_forall in H.
    eapply eflds_wflds; [apply H; eapply nth_error_In; exact Hn|exact Hc].
Qed.

Theorem enc_ok_writable : forall v t x b, enc v t x = Ok b -> writable v t x = true.
Proof. intros v t x b. apply ew_all. Qed.

(* ------------------------------------------------------------------ *)
(* What a well-typed, successfully written field list writes. *)

Lemma wire_written_tys (H : ty -> val -> bool) v : forall fs xs,
  hflds H fs xs = true -> map fst (wire_written v fs xs) = wire_tys v fs.
Proof.
  induction fs as [|f fs IH]; intros [|y ys] Hh; cbn [hflds] in Hh; try discriminate;
    [reflexivity|].
  apply andb_true_iff in Hh as [_ Hh].
  cbn [wire_written]. rewrite map_app, wire_tys_cons, (IH ys Hh). f_equal.
  unfold wt1, is_ignored.
  destruct (fd_kind f); destruct (present v f); reflexivity.
Qed.

Lemma written_ok v : forall fs xs b,
  hflds has_ty fs xs = true -> eflds v (enc v) fs xs = Ok b ->
  Forall (fun p => has_ty (fst p) (snd p) = true /\ writable v (fst p) (snd p) = true)
         (wire_written v fs xs).
Proof.
  induction fs as [|f fs IH]; intros [|y ys] b Hh He; cbn [hflds eflds] in Hh, He;
    try discriminate; [constructor|].
  apply andb_true_iff in Hh as [Hf Hh].
  apply bind_ok in He as (a & Ha & He). apply bind_ok in He as (b' & Hb & _).
  specialize (IH ys b' Hh Hb).
  cbn [wire_written]. apply Forall_app. split; [|exact IH].
  unfold hf, is_removed, is_ignored in Hf. unfold efield in Ha.
  destruct (fd_kind f); destruct (present v f); try discriminate; try constructor;
    try constructor; cbn [fst snd];
    apply andb_true_iff in Hf as [Hf1 Hf2]; try assumption;
    eapply enc_ok_writable; exact Ha.
Qed.

(* ------------------------------------------------------------------ *)
(* 3. C03 *)

Theorem load_old : forall base es k j lk lj xs b, valid_history base es = true -> (k <= j)%nat ->
  has_ty (TStruct lk (annotated base es k)) (VRec xs) = true ->
  writable (N.of_nat k) (TStruct lk (annotated base es k)) (VRec xs) = true ->
  enc (N.of_nat k) (TStruct lk (annotated base es k)) (VRec xs) = Ok b ->
  forall r, dec (N.of_nat k) (TStruct lj (annotated base es j)) (b ++ r)
    = Ok (VRec (fill (N.of_nat k) (annotated base es j)
                  (map (fun p => norm (N.of_nat k) (fst p) (snd p)) (wire_written (N.of_nat k) (annotated base es k) xs))), r).
Proof.
  intros base es k j lk lj xs b Hv Hle Hh _ He r.
  rewrite has_ty_TStruct in Hh. rewrite enc_TStruct in He. rewrite dec_TStruct.
  rewrite (fields_transfer (N.of_nat k) (annotated base es k) (annotated base es j) xs b);
    [reflexivity| | |exact He].
  - rewrite (wire_written_tys _ _ _ _ Hh). symmetry. apply wire_invariant; assumption.
  - eapply written_ok; eassumption.
Qed.

(* 4. C18 *)
Theorem write_old : forall base es k n lk ln xs b, valid_history base es = true -> (k <= n)%nat ->
  has_ty (TStruct ln (annotated base es n)) (VRec xs) = true ->
  enc (N.of_nat k) (TStruct ln (annotated base es n)) (VRec xs) = Ok b ->
  forall r, dec (N.of_nat k) (TStruct lk (annotated base es k)) (b ++ r)
    = Ok (VRec (fill (N.of_nat k) (annotated base es k)
                  (map (fun p => norm (N.of_nat k) (fst p) (snd p)) (wire_written (N.of_nat k) (annotated base es n) xs))), r).
Proof.
  intros base es k n lk ln xs b Hv Hle Hh He r.
  rewrite has_ty_TStruct in Hh. rewrite enc_TStruct in He. rewrite dec_TStruct.
  rewrite (fields_transfer (N.of_nat k) (annotated base es n) (annotated base es k) xs b);
    [reflexivity| | |exact He].
  - rewrite (wire_written_tys _ _ _ _ Hh). apply wire_invariant; assumption.
  - eapply written_ok; eassumption.
Qed.

Print Assumptions wire_invariant.
Print Assumptions fields_transfer.
Print Assumptions load_old.
Print Assumptions write_old.
Print Assumptions write_old_removed_panics.
Print Assumptions history_example.
