(* CryptoProofs.v — proofs about the encrypted container model of Crypto.v.
   The AEAD and its assumptions are section hypotheses (no axioms). *)
From SF Require Import Bytes Crypto.
Open Scope N_scope.

(* ---------- generic list facts ---------- *)

Lemma firstn_app_le {A} n (a b : list A) : (n <= length a)%nat -> firstn n (a ++ b) = firstn n a.
Proof.
  intros H. rewrite firstn_app. replace (n - length a)%nat with O by lia.
  cbn [firstn]. apply app_nil_r.
Qed.

Lemma firstn_app_ge {A} n (a b : list A) : (length a <= n)%nat ->
  firstn n (a ++ b) = a ++ firstn (n - length a) b.
Proof. intros H. rewrite firstn_app. f_equal. apply firstn_all2; exact H. Qed.

Lemma firstn_len_app {A} n (a b : list A) : length a = n -> firstn n (a ++ b) = a.
Proof. intros <-. rewrite firstn_app_le by lia. apply firstn_all. Qed.

Lemma skipn_len_app {A} n (a b : list A) : length a = n -> skipn n (a ++ b) = b.
Proof. intros <-. rewrite skipn_app, skipn_all, Nat.sub_diag. reflexivity. Qed.

Lemma take_exact_short k bs : (length bs < k)%nat -> take_exact k bs = Err EEof.
Proof.
  intros H. unfold take_exact.
  replace (Nat.leb k (length bs)) with false; [reflexivity|].
  symmetry; apply Nat.leb_gt; exact H.
Qed.

(* ---------- nonce arithmetic ---------- *)

Definition NM : N := Bytes.U64 * U32M.
Definition nval (n : nonce) : N := fst n * U32M + snd n.
Definition inr (n : nonce) : Prop := fst n < Bytes.U64 /\ snd n < U32M.

Lemma nonce_bytes_length n : length (nonce_bytes n) = 12%nat.
Proof. unfold nonce_bytes. rewrite app_length, !le_length. reflexivity. Qed.

Lemma advance_inr n : inr n -> inr (advance n).
Proof.
  intros [H1 H2]. unfold inr, advance. cbn [fst snd]. split.
  - destruct ((snd n + 1) mod U32M =? 0); [apply N.mod_lt; discriminate|exact H1].
  - apply N.mod_lt; discriminate.
Qed.

Lemma nval_advance n : inr n -> nval (advance n) = (nval n + 1) mod NM.
Proof.
  destruct n as [a b]. unfold inr, nval, advance, NM. cbn [fst snd]. intros [Ha Hb].
  destruct ((b + 1) mod U32M =? 0) eqn:E; [apply N.eqb_eq in E|apply N.eqb_neq in E];
    cbn [fst snd]; unfold Bytes.U64, U32M in *; divmod_lia.
Qed.

Lemma nval_inj n m : inr n -> inr m -> nval n = nval m -> n = m.
Proof.
  destruct n as [a b], m as [c d]. unfold inr, nval. cbn [fst snd]. intros [Ha Hb] [Hc Hd] H.
  unfold Bytes.U64, U32M in *. f_equal; lia.
Qed.

Lemma nval_lt n : inr n -> nval n < NM.
Proof.
  destruct n as [a b]. unfold inr, nval, NM. cbn [fst snd]. intros [Ha Hb].
  unfold Bytes.U64, U32M in *. lia.
Qed.

Lemma advance_inj n m : inr n -> inr m -> advance n = advance m -> n = m.
Proof.
  intros Hn Hm H. apply nval_inj; try assumption.
  pose proof (nval_advance n Hn) as E1. pose proof (nval_advance m Hm) as E2.
  rewrite H in E1. rewrite E1 in E2.
  pose proof (nval_lt n Hn). pose proof (nval_lt m Hm).
  unfold NM, Bytes.U64, U32M in *. divmod_lia.
Qed.

Lemma advance_n_comm j n : advance_n j (advance n) = advance (advance_n j n).
Proof. induction j as [|j IH]; cbn [advance_n]; [reflexivity|now rewrite IH]. Qed.

Lemma advance_n_inr j n : inr n -> inr (advance_n j n).
Proof. intros H. induction j as [|j IH]; cbn [advance_n]; [exact H|apply advance_inr; exact IH]. Qed.

Lemma nval_advance_n j n : inr n -> nval (advance_n j n) = (nval n + N.of_nat j) mod NM.
Proof.
  intros H. induction j as [|j IH].
  - cbn [advance_n]. change (N.of_nat 0) with 0. rewrite N.add_0_r.
    symmetry; apply N.mod_small; apply nval_lt; exact H.
  - cbn [advance_n]. rewrite nval_advance by (apply advance_n_inr; exact H).
    rewrite IH, N.add_mod_idemp_l by discriminate. f_equal. lia.
Qed.

(* the nonce sequence has period 2^96: why a file of 2^96 frames can be rotated undetected *)
Lemma advance_period n : inr n -> advance_n (N.to_nat NM) n = n.
Proof.
  intros H. apply nval_inj; [apply advance_n_inr; exact H|exact H|].
  rewrite nval_advance_n, N2Nat.id by exact H.
  pose proof (nval_lt n H). unfold NM, Bytes.U64, U32M in *. divmod_lia.
Qed.

Lemma advance_n_eq i j n : inr n -> N.of_nat i < N.of_nat j + NM -> N.of_nat j < N.of_nat i + NM ->
  advance_n i n = advance_n j n -> i = j.
Proof.
  intros H Hi Hj E. apply (f_equal nval) in E.
  rewrite !nval_advance_n in E by exact H.
  pose proof (nval_lt n H). unfold NM, Bytes.U64, U32M in *. divmod_lia.
Qed.

Section CryptoProofs.
Variable key : Type.
Variable seal : key -> nonce -> bytes -> bytes.
Variable open : key -> nonce -> bytes -> option bytes.
Hypothesis open_seal : forall k n p, open k n (seal k n p) = Some p.
Hypothesis seal_length : forall k n p, length (seal k n p) = (length p + 16)%nat.

Definition chunks_ok (cs : list bytes) : Prop :=
  Forall (fun c => (1 <= length c)%nat /\ (N.of_nat (length c) <= BUFSIZE)%N) cs.

Local Notation frame := (frame key seal).
Local Notation frames := (frames key seal).
Local Notation read_frames := (read_frames key open).
Local Notation decrypt_file := (decrypt_file key open).
Local Notation encrypt_chunks := (encrypt_chunks key seal).

(* ---------- frames ---------- *)

Lemma frames_cons k n c r :
  frames k n (c :: r) = (frame k (advance n) c ++ fst (frames k (advance n) r), snd (frames k (advance n) r)).
Proof. cbn [Crypto.frames]. destruct (frames k (advance n) r); reflexivity. Qed.

Lemma frames_app k cs1 : forall n cs2,
  frames k n (cs1 ++ cs2) =
  (fst (frames k n cs1) ++ fst (frames k (snd (frames k n cs1)) cs2), snd (frames k (snd (frames k n cs1)) cs2)).
Proof.
  induction cs1 as [|c r IH]; intros n cs2.
  - cbn [app Crypto.frames fst snd]. destruct (frames k n cs2); reflexivity.
  - rewrite <- app_comm_cons, !frames_cons, IH. cbn [fst snd]. now rewrite app_assoc.
Qed.

Lemma frame_length k n c : length (frame k n c) = (8 + (length c + 16))%nat.
Proof. unfold Crypto.frame. now rewrite app_length, le_length, seal_length. Qed.

(* ---------- one reader step on a well-formed frame (writer key k, reader key k') ---------- *)

Lemma read_frames_nonempty f k n bs : bs <> [] ->
  read_frames (S f) k n bs =
  (let* (len, r) := rd_le 8 bs in
   if BUFSIZE + TAGLEN <? len then Err EOther else
   let* (body, r') := take_exact (N.to_nat len) r in
   match open k (advance n) body with
   | None => Err EOther
   | Some p => let* rest := read_frames f k (advance n) r' in Ok (p ++ rest)
   end).
Proof. destruct bs; [congruence|reflexivity]. Qed.

Lemma frame_nonempty k n c rest : frame k n c ++ rest <> [].
Proof.
  intros H. apply (f_equal (@length _)) in H. rewrite app_length, frame_length in H. cbn in H. lia.
Qed.

Lemma rf_step f k k' n nw c rest : N.of_nat (length c) <= BUFSIZE ->
  read_frames (S f) k' n (frame k nw c ++ rest) =
  match open k' (advance n) (seal k nw c) with
  | None => Err EOther
  | Some p => let* r := read_frames f k' (advance n) rest in Ok (p ++ r)
  end.
Proof.
  intros Hc. rewrite read_frames_nonempty by apply frame_nonempty.
  unfold Crypto.frame. rewrite <- app_assoc.
  rewrite rd_le_app by (rewrite pow_256_8; unfold Bytes.U64, TAGLEN, BUFSIZE in *; lia).
  cbn [bind].
  replace (BUFSIZE + TAGLEN <? N.of_nat (length c) + TAGLEN) with false
    by (symmetry; apply N.ltb_ge; lia).
  rewrite take_exact_app by (rewrite seal_length; unfold TAGLEN; lia).
  cbn [bind]. reflexivity.
Qed.

Lemma read_frames_nil f k n : read_frames f k n [] = Ok [].
Proof. destruct f; reflexivity. Qed.

Lemma read_frames_honest k cs : forall n fuel, chunks_ok cs ->
  (length (fst (frames k n cs)) <= fuel)%nat ->
  read_frames fuel k n (fst (frames k n cs)) = Ok (concat cs).
Proof.
  induction cs as [|c r IH]; intros n fuel Hok Hf.
  - cbn [Crypto.frames fst concat]. apply read_frames_nil.
  - inversion Hok as [|? ? [Hc1 Hc2] Hr]; subst.
    rewrite frames_cons in *. cbn [fst] in *. rewrite app_length, frame_length in Hf.
    destruct fuel as [|f]; [lia|].
    rewrite rf_step by exact Hc2. rewrite open_seal, IH by (try assumption; lia).
    reflexivity.
Qed.

Lemma header_parse n : inr n ->
  (unle (firstn 8 (nonce_bytes n)), unle (skipn 8 (nonce_bytes n))) = n.
Proof.
  intros [H1 H2]. unfold nonce_bytes.
  rewrite firstn_len_app, skipn_len_app by apply le_length.
  rewrite !unle_le; [destruct n; reflexivity| |].
  - change (256 ^ N.of_nat 4) with U32M. exact H2.
  - rewrite pow_256_8. exact H1.
Qed.

Lemma decrypt_header k n rest : inr n ->
  decrypt_file k (nonce_bytes n ++ rest) = read_frames (length rest) k n rest.
Proof.
  intros H. unfold Crypto.decrypt_file. rewrite take_exact_app by apply nonce_bytes_length.
  cbn [bind]. now rewrite header_parse.
Qed.

(* 1 *)
Theorem decrypt_encrypt : forall k n0 cs, (fst n0 < Bytes.U64)%N -> (snd n0 < U32M)%N -> chunks_ok cs ->
  decrypt_file k (encrypt_chunks k n0 cs) = Ok (concat cs).
Proof.
  intros k n0 cs H1 H2 Hok. unfold Crypto.encrypt_chunks.
  rewrite decrypt_header by (split; assumption).
  apply read_frames_honest; [exact Hok|lia].
Qed.

(* ---------- 5. truncation ---------- *)

Lemma trunc_frames k cs : forall n i fuel, chunks_ok cs ->
  (i < length (fst (frames k n cs)))%nat -> (i <= fuel)%nat ->
  (exists e, read_frames fuel k n (firstn i (fst (frames k n cs))) = Err e)
  \/ (exists m, (m < length cs)%nat
        /\ firstn i (fst (frames k n cs)) = fst (frames k n (firstn m cs))
        /\ read_frames fuel k n (firstn i (fst (frames k n cs))) = Ok (concat (firstn m cs))).
Proof.
  induction cs as [|c r IH]; intros n i fuel Hok Hi Hf.
  - cbn in Hi. lia.
  - inversion Hok as [|? ? [Hc1 Hc2] Hr]; subst.
    rewrite frames_cons in *. cbn [fst] in *.
    set (rest := fst (frames k (advance n) r)) in *.
    rewrite app_length, frame_length in Hi.
    destruct (Nat.eq_dec i 0) as [->|Hi0].
    { right. exists O. cbn [firstn Crypto.frames fst concat length].
      split; [lia|]. split; [reflexivity|apply read_frames_nil]. }
    destruct fuel as [|f]; [lia|].
    destruct (Nat.lt_ge_cases i 8) as [Hlt|Hge].
    { left. exists EEof.
      assert (Hl : length (firstn i (frame k (advance n) c ++ rest)) = i).
      { rewrite firstn_length, app_length, frame_length. lia. }
      rewrite read_frames_nonempty
        by (intros E; rewrite E in Hl; cbn in Hl; lia).
      unfold rd_le. rewrite take_exact_short by lia. reflexivity. }
    destruct (Nat.lt_ge_cases i (8 + (length c + 16))) as [Hlt2|Hge2].
    { left. exists EEof. unfold Crypto.frame. rewrite <- app_assoc.
      rewrite firstn_app_ge by (rewrite le_length; exact Hge). rewrite le_length.
      rewrite read_frames_nonempty.
      2:{ intros E. apply (f_equal (@length _)) in E. rewrite app_length, le_length in E. cbn in E. lia. }
      rewrite rd_le_app by (rewrite pow_256_8; unfold Bytes.U64, TAGLEN, BUFSIZE in *; lia).
      cbn [bind].
      replace (BUFSIZE + TAGLEN <? N.of_nat (length c) + TAGLEN) with false
        by (symmetry; apply N.ltb_ge; lia).
      rewrite take_exact_short; [reflexivity|].
      rewrite firstn_length. unfold TAGLEN. lia. }
    rewrite firstn_app_ge by (rewrite frame_length; exact Hge2). rewrite frame_length.
    rewrite rf_step by exact Hc2. rewrite open_seal.
    destruct (IH (advance n) (i - (8 + (length c + 16)))%nat f Hr) as [[e He]|[m [Hm [E1 E2]]]];
      [fold rest; lia|lia| |].
    + left. exists e. fold rest in He. rewrite He. reflexivity.
    + right. exists (S m). fold rest in E1, E2. rewrite E2, E1. cbn [firstn length concat].
      rewrite frames_cons. cbn [fst bind]. split; [lia|]. split; reflexivity.
Qed.

Theorem truncated_file : forall k n0 cs j, (fst n0 < Bytes.U64)%N -> (snd n0 < U32M)%N -> chunks_ok cs ->
  (j < length (encrypt_chunks k n0 cs))%nat ->
  (exists e, decrypt_file k (firstn j (encrypt_chunks k n0 cs)) = Err e)
  \/ (exists m, (m < length cs)%nat
        /\ firstn j (encrypt_chunks k n0 cs) = encrypt_chunks k n0 (firstn m cs)
        /\ decrypt_file k (firstn j (encrypt_chunks k n0 cs)) = Ok (concat (firstn m cs))).
Proof.
  intros k n0 cs j H1 H2 Hok Hj. unfold Crypto.encrypt_chunks in *.
  rewrite app_length, nonce_bytes_length in Hj.
  destruct (Nat.lt_ge_cases j 12) as [Hlt|Hge].
  - left. exists EEof. unfold Crypto.decrypt_file.
    rewrite take_exact_short; [reflexivity|].
    rewrite firstn_length, app_length, nonce_bytes_length. lia.
  - rewrite firstn_app_ge by (rewrite nonce_bytes_length; exact Hge).
    rewrite nonce_bytes_length, decrypt_header by (split; assumption).
    destruct (trunc_frames k cs n0 (j - 12)%nat
                (length (firstn (j - 12) (fst (frames k n0 cs)))) Hok) as [[e He]|[m [Hm [E1 E2]]]];
      [lia|rewrite firstn_length; lia| |].
    + left. exists e. exact He.
    + right. exists m. split; [exact Hm|]. split; [now rewrite E1|exact E2].
Qed.

(* ---------- 6. wrong key ---------- *)

Theorem wrong_key_rejected : forall k k' n0 cs, (fst n0 < Bytes.U64)%N -> (snd n0 < U32M)%N -> chunks_ok cs -> cs <> [] ->
  (forall n c, open k' n (seal k n c) = None) ->
  exists e, decrypt_file k' (encrypt_chunks k n0 cs) = Err e.
Proof.
  intros k k' n0 cs H1 H2 Hok Hne Hopen. destruct cs as [|c r]; [congruence|].
  inversion Hok as [|? ? [Hc1 Hc2] Hr]; subst.
  unfold Crypto.encrypt_chunks. rewrite decrypt_header by (split; assumption).
  rewrite frames_cons. cbn [fst]. rewrite app_length, frame_length. cbn [plus].
  rewrite rf_step by exact Hc2. rewrite Hopen. exists EOther. reflexivity.
Qed.

(* ---------- the writer ---------- *)

Lemma BS_pos : (1 <= N.to_nat BUFSIZE)%nat.
Proof. unfold BUFSIZE. lia. Qed.

Lemma chunks_concat f : forall buf, (length buf <= f)%nat -> concat (chunks f buf) = buf.
Proof.
  induction f as [|f IH]; intros buf H.
  - destruct buf; [reflexivity|cbn in H; lia].
  - destruct buf as [|x b]; [reflexivity|].
    cbn [chunks concat]. rewrite IH; [apply firstn_skipn|].
    rewrite skipn_length. pose proof BS_pos. cbn [length] in *. lia.
Qed.

Lemma chunks_ok_chunks f : forall buf, chunks_ok (chunks f buf).
Proof.
  induction f as [|f IH]; intros buf; [constructor|].
  destruct buf as [|x b]; [constructor|].
  cbn [chunks]. constructor; [|apply IH].
  rewrite firstn_length. cbn [length]. unfold BUFSIZE. lia.
Qed.

Lemma split_chunks_nil_iff buf : split_chunks buf = [] <-> buf = [].
Proof.
  unfold split_chunks. destruct buf; cbn [length chunks]; split; intros H; try reflexivity; discriminate.
Qed.

Definition setb (s : wstate) (o : option N) : wstate :=
  WS (w_buf s) (w_failed s) (w_nonce s) (w_out s) o.
Definition fits (o : option N) (l : N) : Prop := match o with None => True | Some b => l <= b end.
Definition bsub (o : option N) (l : N) : option N := match o with None => None | Some b => Some (b - l) end.

Lemma setb_id s o : w_budget s = o -> setb s o = s.
Proof. destruct s; cbn. intros <-. reflexivity. Qed.

Lemma uw_fits s data : fits (w_budget s) (N.of_nat (length data)) ->
  under_write s data =
  (WS (w_buf s) (w_failed s) (w_nonce s) (w_out s ++ data) (bsub (w_budget s) (N.of_nat (length data))), true).
Proof.
  unfold under_write, fits, bsub. destruct (w_budget s) as [b|]; [|reflexivity].
  intros H. apply N.leb_le in H. rewrite H. reflexivity.
Qed.

Lemma uw_fail s data b : w_budget s = Some b -> b < N.of_nat (length data) ->
  under_write s data =
  (WS (w_buf s) (w_failed s) (w_nonce s) (w_out s ++ firstn (N.to_nat b) data) (Some 0), false).
Proof.
  intros Hb H. unfold under_write. rewrite Hb. apply N.leb_gt in H. rewrite H. reflexivity.
Qed.

Lemma fits_app o {A} (a b : list A) : fits o (N.of_nat (length (a ++ b))) ->
  fits o (N.of_nat (length a)) /\ fits (bsub o (N.of_nat (length a))) (N.of_nat (length b)).
Proof. destruct o; cbn [fits bsub]; [rewrite app_length; lia|tauto]. Qed.

Lemma bsub_app o {A} (a b : list A) :
  bsub (bsub o (N.of_nat (length a))) (N.of_nat (length b)) = bsub o (N.of_nat (length (a ++ b))).
Proof. destruct o; cbn [bsub]; [|reflexivity]. rewrite app_length. f_equal. lia. Qed.

Section Writer.
Variable k : key.
Local Notation flush_chunks := (flush_chunks key seal k).
Local Notation flush := (flush key seal k).
Local Notation write := (write key seal k).
Local Notation wdrop := (wdrop key seal k).
Local Notation run_ops := (run_ops key seal k).
Local Notation run_writer := (run_writer key seal k).

Lemma flush_chunks_fits cs : forall s,
  fits (w_budget s) (N.of_nat (length (fst (frames k (w_nonce s) cs)))) ->
  flush_chunks s cs =
  (WS (w_buf s) (w_failed s) (snd (frames k (w_nonce s) cs)) (w_out s ++ fst (frames k (w_nonce s) cs))
      (bsub (w_budget s) (N.of_nat (length (fst (frames k (w_nonce s) cs))))), true).
Proof.
  induction cs as [|c r IH]; intros s Hf.
  - cbn [Crypto.flush_chunks Crypto.frames fst snd length]. destruct s as [b f n o bu].
    cbn [w_buf w_failed w_nonce w_out w_budget]. rewrite app_nil_r. do 2 f_equal.
    destruct bu; cbn [bsub]; [|reflexivity]. change (N.of_nat 0) with 0. now rewrite N.sub_0_r.
  - rewrite frames_cons in *. cbn [fst snd] in *. unfold Crypto.frame in *.
    set (A := le 8 (N.of_nat (length c) + TAGLEN)) in *.
    set (B := seal k (advance (w_nonce s)) c) in *.
    set (R := fst (frames k (advance (w_nonce s)) r)) in *.
    apply fits_app in Hf as [Hf1 Hf3]. apply fits_app in Hf1 as [Hf1 Hf2].
    cbn [Crypto.flush_chunks]. fold A. rewrite uw_fits by exact Hf1.
    cbn [negb w_buf w_failed w_nonce w_out w_budget]. fold B. rewrite uw_fits by exact Hf2.
    cbn [negb w_buf w_failed w_nonce w_out w_budget].
    rewrite IH; cbn [w_buf w_failed w_nonce w_out w_budget]; fold R.
    + rewrite !bsub_app, <- !app_assoc. reflexivity.
    + rewrite bsub_app. exact Hf3.
Qed.

Lemma flush_chunks_fail cs : forall s b, w_budget s = Some b ->
  b < N.of_nat (length (fst (frames k (w_nonce s) cs))) ->
  exists t', flush_chunks s cs = (t', false)
    /\ w_out t' = w_out s ++ firstn (N.to_nat b) (fst (frames k (w_nonce s) cs))
    /\ w_budget t' = Some 0 /\ w_buf t' = w_buf s /\ w_failed t' = w_failed s.
Proof.
  induction cs as [|c r IH]; intros s b Hb Hlt.
  - cbn in Hlt. lia.
  - rewrite frames_cons in *. cbn [fst snd] in *. unfold Crypto.frame in *.
    set (A := le 8 (N.of_nat (length c) + TAGLEN)) in *.
    set (B := seal k (advance (w_nonce s)) c) in *.
    set (R := fst (frames k (advance (w_nonce s)) r)) in *.
    rewrite !app_length in Hlt. cbn [Crypto.flush_chunks]. fold A.
    destruct (N.lt_ge_cases b (N.of_nat (length A))) as [H1|H1].
    { rewrite (uw_fail _ _ b) by (cbn [w_budget]; assumption).
      cbn [negb]. eexists. split; [reflexivity|]. cbn [w_buf w_failed w_nonce w_out w_budget].
      rewrite <- app_assoc, firstn_app_le by lia. repeat split. }
    rewrite uw_fits by (cbn [w_budget]; rewrite Hb; exact H1).
    cbn [negb w_buf w_failed w_nonce w_out w_budget]. fold B. rewrite Hb. cbn [bsub].
    destruct (N.lt_ge_cases (b - N.of_nat (length A)) (N.of_nat (length B))) as [H2|H2].
    { rewrite (uw_fail _ _ (b - N.of_nat (length A))); [|reflexivity|exact H2].
      cbn [negb]. eexists. split; [reflexivity|]. cbn [w_buf w_failed w_nonce w_out w_budget].
      rewrite <- !app_assoc, (firstn_app_ge _ A) by lia. rewrite firstn_app_le by lia.
      repeat split. do 3 f_equal. lia. }
    rewrite uw_fits by (cbn [w_budget fits]; exact H2).
    cbn [negb w_buf w_failed w_nonce w_out w_budget bsub].
    edestruct (IH (WS (w_buf s) (w_failed s) (advance (w_nonce s)) ((w_out s ++ A) ++ B)
                      (Some (b - N.of_nat (length A) - N.of_nat (length B)))))
      as [t' [E [O [Bu [Bf Fl]]]]]; [reflexivity| |].
    { cbn [w_nonce]. fold R. lia. }
    exists t'. split; [exact E|]. cbn [w_buf w_failed w_nonce w_out w_budget] in *. fold R in O.
    rewrite O. repeat split; try assumption.
    rewrite (firstn_app_ge _ (A ++ B)) by (rewrite app_length; lia).
    rewrite <- !app_assoc. do 4 f_equal. rewrite app_length. lia.
Qed.

Lemma flush_fits s :
  let FR := frames k (w_nonce s) (split_chunks (w_buf s)) in
  fits (w_budget s) (N.of_nat (length (fst FR))) ->
  flush s = (WS [] false (snd FR) (w_out s ++ fst FR) (bsub (w_budget s) (N.of_nat (length (fst FR)))), WOk).
Proof.
  intros FR Hf. unfold Crypto.flush. rewrite flush_chunks_fits by exact Hf. reflexivity.
Qed.

Lemma flush_fail s b :
  let FR := frames k (w_nonce s) (split_chunks (w_buf s)) in
  w_budget s = Some b -> b < N.of_nat (length (fst FR)) ->
  exists t', flush s = (t', WErr) /\ w_out t' = w_out s ++ firstn (N.to_nat b) (fst FR)
    /\ w_budget t' = Some 0 /\ w_buf t' = w_buf s /\ w_failed t' = true.
Proof.
  intros FR Hb Hlt. unfold Crypto.flush.
  destruct (flush_chunks_fail (split_chunks (w_buf s))
              (WS (w_buf s) true (w_nonce s) (w_out s) (w_budget s)) b Hb Hlt) as [t' [E H]].
  rewrite E. exists t'. split; [reflexivity|exact H].
Qed.

Lemma frames_nil_len n cs : cs <> [] -> (8 <= length (fst (frames k n cs)))%nat.
Proof.
  destruct cs as [|c r]; [congruence|]. intros _. rewrite frames_cons. cbn [fst].
  rewrite app_length, frame_length. lia.
Qed.

Lemma flush_dead t : w_budget t = Some 0 -> w_buf t <> [] ->
  exists t', flush t = (t', WErr) /\ w_out t' = w_out t.
Proof.
  intros Hb Hne. destruct (flush_fail t 0 Hb) as [t' [E [O _]]].
  - pose proof (frames_nil_len (w_nonce t) (split_chunks (w_buf t))) as H.
    rewrite split_chunks_nil_iff in H. specialize (H Hne). lia.
  - exists t'. split; [exact E|]. rewrite O. change (N.to_nat 0) with 0%nat. cbn [firstn]. apply app_nil_r.
Qed.

(* behaviour of an operation on the same state with a byte budget, relative to the fault-free run *)
Definition bspec (run : wstate -> wstate * wres) (s s' : wstate) (ext : bytes) (er : wres) : Prop :=
  forall b,
    (N.of_nat (length ext) <= b -> run (setb s (Some b)) = (setb s' (Some (b - N.of_nat (length ext))), WOk))
    /\ (b < N.of_nat (length ext) ->
        exists t', run (setb s (Some b)) = (t', er)
          /\ w_out t' = w_out s ++ firstn (N.to_nat b) ext /\ w_budget t' = Some 0 /\ w_failed t' = true).

Definition hspec (run : wstate -> wstate * wres) (s : wstate) (data : bytes) (er : wres) : Prop :=
  exists s' cs,
    run (setb s None) = (s', WOk)
    /\ w_out s' = w_out s ++ fst (frames k (w_nonce s) cs)
    /\ w_nonce s' = snd (frames k (w_nonce s) cs)
    /\ w_budget s' = None /\ w_failed s' = false
    /\ chunks_ok cs
    /\ concat cs ++ w_buf s' = w_buf s ++ data
    /\ bspec run s s' (fst (frames k (w_nonce s) cs)) er.

Lemma flush_hspec s : hspec flush s [] WErr.
Proof.
  set (FR := frames k (w_nonce s) (split_chunks (w_buf s))).
  exists (WS [] false (snd FR) (w_out s ++ fst FR) None), (split_chunks (w_buf s)).
  fold FR. cbn [w_buf w_failed w_nonce w_out w_budget].
  split; [apply (flush_fits (setb s None)); exact I|].
  do 4 (split; [reflexivity|]).
  split; [apply chunks_ok_chunks|].
  split; [rewrite !app_nil_r; apply chunks_concat; lia|].
  intros b. split; intros H.
  - apply (flush_fits (setb s (Some b))). exact H.
  - destruct (flush_fail (setb s (Some b)) b eq_refl H) as [t' [E [O [Bu [_ Fl]]]]].
    exists t'. cbn [setb w_buf w_failed w_nonce w_out w_budget] in *. fold FR in O.
    repeat split; assumption.
Qed.

Definition wapp (s : wstate) (d : bytes) : wstate :=
  WS (w_buf s ++ d) false (w_nonce s) (w_out s) (w_budget s).

Lemma write_eq s d o : w_failed s = false ->
  write (setb s o) d =
  if BUFSIZE <? N.of_nat (length (w_buf s ++ d)) then flush (setb (wapp s d) o) else (setb (wapp s d) o, WOk).
Proof. intros Hf. unfold Crypto.write, setb, wapp. cbn [w_buf w_failed w_nonce w_out w_budget]. rewrite Hf. reflexivity. Qed.

Lemma write_hspec s d : w_failed s = false -> hspec (fun s => write s d) s d WErr.
Proof.
  intros Hf. destruct (BUFSIZE <? N.of_nat (length (w_buf s ++ d))) eqn:E.
  - destruct (flush_hspec (wapp s d)) as (s' & cs & H1 & H2 & H3 & H4 & H5 & H6 & H7 & H8).
    exists s', cs. cbn [wapp w_buf w_failed w_nonce w_out w_budget] in *.
    rewrite write_eq, E by exact Hf. rewrite app_nil_r in H7.
    repeat (split; [assumption|]).
    intros b. specialize (H8 b). rewrite write_eq, E by exact Hf. exact H8.
  - exists (setb (wapp s d) None), []. cbn [Crypto.frames fst snd concat app].
    rewrite write_eq, E by exact Hf. cbn [setb wapp w_buf w_failed w_nonce w_out w_budget].
    rewrite app_nil_r. repeat (split; [reflexivity|]).
    split; [constructor|]. split; [reflexivity|].
    intros b. rewrite write_eq, E by exact Hf. cbn [length]. split; intros H.
    + change (N.of_nat 0) with 0. rewrite N.sub_0_r. reflexivity.
    + change (N.of_nat 0) with 0 in H. lia.
Qed.

Definition opdata (op : wop) : bytes := match op with OpWrite d => d | OpFlush => [] end.
Definition step (s : wstate) (op : wop) : wstate * wres :=
  match op with OpWrite d => write s d | OpFlush => flush s end.

Lemma step_hspec s op : w_failed s = false -> hspec (fun s => step s op) s (opdata op) WErr.
Proof. destruct op; intros H; [apply write_hspec; exact H|apply flush_hspec]. Qed.

Lemma run_ops_cons s op r :
  run_ops s (op :: r) = match step s op with (s1, WOk) => run_ops s1 r | (s1, other) => (s1, other) end.
Proof. cbn [Crypto.run_ops]. unfold step. destruct op; reflexivity. Qed.

Lemma run_ops_hspec ops : forall s, w_failed s = false ->
  hspec (fun s => run_ops s ops) s (flat_map opdata ops) WErr.
Proof.
  induction ops as [|op r IH]; intros s Hf.
  - exists (setb s None), []. cbn [Crypto.run_ops Crypto.frames fst snd concat app flat_map setb
      w_buf w_failed w_nonce w_out w_budget length].
    rewrite !app_nil_r. repeat (split; [reflexivity || assumption|]).
    split; [constructor|]. split; [reflexivity|].
    intros b. cbn [length]. change (N.of_nat 0) with 0. split; intros H; [|lia]. rewrite N.sub_0_r. reflexivity.
  - destruct (step_hspec s op Hf) as (s1 & cs1 & E1 & O1 & N1 & B1 & F1 & C1 & D1 & S1).
    destruct (IH s1 F1) as (s2 & cs2 & E2 & O2 & N2 & B2 & F2 & C2 & D2 & S2).
    rewrite (setb_id s1 None B1) in E2.
    exists s2, (cs1 ++ cs2). rewrite frames_app. cbn [fst snd]. rewrite <- N1.
    set (ext1 := fst (frames k (w_nonce s) cs1)) in *.
    set (ext2 := fst (frames k (w_nonce s1) cs2)) in *.
    split; [rewrite run_ops_cons, E1; exact E2|].
    split; [rewrite O2, O1, app_assoc; reflexivity|].
    split; [exact N2|]. split; [exact B2|]. split; [exact F2|].
    split; [apply Forall_app; split; assumption|].
    split.
    { cbn [flat_map]. rewrite concat_app, <- app_assoc, D2, !app_assoc, D1. reflexivity. }
    intros b. rewrite app_length, Nat2N.inj_add. destruct (S1 b) as [S1a S1b]. split; intros H.
    + rewrite run_ops_cons, S1a by lia.
      destruct (S2 (b - N.of_nat (length ext1))) as [S2a _]. rewrite S2a by lia.
      do 3 f_equal. lia.
    + destruct (N.lt_ge_cases b (N.of_nat (length ext1))) as [H1|H1].
      * destruct (S1b H1) as [t' [E [O [Bu Bf]]]]. exists t'.
        rewrite run_ops_cons, E. split; [reflexivity|].
        rewrite firstn_app_le by lia. repeat split; assumption.
      * rewrite run_ops_cons, S1a by lia.
        destruct (S2 (b - N.of_nat (length ext1))) as [_ S2b].
        destruct S2b as [t' [E [O [Bu Bf]]]]; [lia|]. exists t'.
        split; [exact E|]. rewrite O, O1, firstn_app_ge by lia. rewrite <- app_assoc.
        repeat split; try assumption. do 3 f_equal. lia.
Qed.

Lemma wnew_ok n0 o : fits o 12 -> wnew n0 o = (WS [] false n0 (nonce_bytes n0) (bsub o 12), WOk).
Proof.
  intros H. unfold wnew. rewrite uw_fits; cbn [w_budget w_buf w_failed w_nonce w_out app];
    rewrite nonce_bytes_length; [reflexivity|exact H].
Qed.

Lemma wnew_fail n0 b : b < 12 ->
  wnew n0 (Some b) = (WS [] false n0 (firstn (N.to_nat b) (nonce_bytes n0)) (Some 0), WErr).
Proof.
  intros H. unfold wnew. rewrite (uw_fail _ _ b); [reflexivity|reflexivity|].
  rewrite nonce_bytes_length. exact H.
Qed.

Lemma flush_ok_buf s s' : flush s = (s', WOk) -> w_buf s' = [].
Proof.
  unfold Crypto.flush.
  destruct (flush_chunks (WS (w_buf s) true (w_nonce s) (w_out s) (w_budget s)) (split_chunks (w_buf s))) as [st1 [|]];
    intros H; inversion H; reflexivity.
Qed.

Lemma run_ops_app a : forall s b,
  run_ops s (a ++ b) = match run_ops s a with (s', WOk) => run_ops s' b | other => other end.
Proof.
  induction a as [|op r IH]; intros s b; [reflexivity|].
  rewrite <- app_comm_cons, !run_ops_cons. destruct (step s op) as [s1 [| |]]; try reflexivity. apply IH.
Qed.

Lemma wdrop_failed t : w_failed t = true -> wdrop t = (t, WOk).
Proof. intros H. unfold Crypto.wdrop. rewrite H. reflexivity. Qed.

Lemma wdrop_live t : w_failed t = false ->
  wdrop t = (let '(st1, r) := flush t in (st1, match r with WOk => WOk | _ => WPanic end)).
Proof. intros H. unfold Crypto.wdrop. rewrite H. reflexivity. Qed.

Lemma writer_chars n0 ops : exists cs s1, chunks_ok cs /\ concat cs = flat_map opdata ops
  /\ run_ops (WS [] false n0 (nonce_bytes n0) None) ops = (s1, WOk)
  /\ run_writer n0 None ops = (encrypt_chunks k n0 cs, WOk, WOk)
  /\ forall b out r1 r2, run_writer n0 (Some b) ops = (out, r1, r2) ->
     let hf := encrypt_chunks k n0 cs in
     out = firstn (N.to_nat (N.min b (N.of_nat (length hf)))) hf
     /\ (N.of_nat (length hf) <= b -> r1 = WOk /\ r2 = WOk)
     /\ (b < N.of_nat (length hf) ->
         (r1 = WErr /\ r2 = WOk) \/ (r1 = WOk /\ r2 = WPanic /\ w_buf s1 <> [])).
Proof.
  set (s0 := WS [] false n0 (nonce_bytes n0) None).
  destruct (run_ops_hspec ops s0 eq_refl) as (s1 & cs1 & E1 & O1 & N1 & B1 & F1 & C1 & D1 & S1).
  change (setb s0 None) with s0 in E1.
  change (w_out s0) with (nonce_bytes n0) in *. change (w_nonce s0) with n0 in *.
  change (w_buf s0) with (@nil N) in D1. cbn [app] in D1.
  set (cs2 := split_chunks (w_buf s1)).
  set (ext1 := fst (frames k n0 cs1)) in *.
  set (ext2 := fst (frames k (w_nonce s1) cs2)).
  assert (Ehf : encrypt_chunks k n0 (cs1 ++ cs2) = nonce_bytes n0 ++ ext1 ++ ext2).
  { unfold Crypto.encrypt_chunks. rewrite frames_app. cbn [fst]. rewrite <- N1. reflexivity. }
  assert (Edrop : wdrop s1 = (WS [] false (snd (frames k (w_nonce s1) cs2)) (w_out s1 ++ ext2) None, WOk)).
  { rewrite wdrop_live by exact F1. rewrite flush_fits by (rewrite B1; exact I). rewrite B1. reflexivity. }
  exists (cs1 ++ cs2), s1. split; [apply Forall_app; split; [exact C1|apply chunks_ok_chunks]|].
  split.
  { rewrite concat_app. unfold cs2, split_chunks. rewrite chunks_concat by lia. exact D1. }
  split; [exact E1|].
  split.
  { unfold Crypto.run_writer. rewrite wnew_ok by exact I. cbn [bsub]. fold s0.
    rewrite E1, Edrop. cbn [w_out]. rewrite Ehf, O1, <- app_assoc. reflexivity. }
  intros b out r1 r2 Hrun hf. unfold hf. rewrite Ehf, !app_length, nonce_bytes_length.
  unfold Crypto.run_writer in Hrun.
  destruct (N.lt_ge_cases b 12) as [Hb|Hb].
  { rewrite wnew_fail in Hrun by exact Hb. cbn [w_out] in Hrun. inversion Hrun; subst.
    split; [|split; [lia|intros _; left; split; reflexivity]].
    rewrite firstn_app_le by (rewrite nonce_bytes_length; lia). f_equal. lia. }
  rewrite wnew_ok in Hrun by exact Hb. cbn [bsub] in Hrun.
  change (WS [] false n0 (nonce_bytes n0) (Some (b - 12))) with (setb s0 (Some (b - 12))) in Hrun.
  destruct (S1 (b - 12)) as [S1a S1b].
  destruct (N.lt_ge_cases (b - 12) (N.of_nat (length ext1))) as [H1|H1].
  { destruct (S1b H1) as [t' [E [O [Bu Fl]]]]. rewrite E in Hrun.
    rewrite wdrop_failed in Hrun by exact Fl. inversion Hrun; subst.
    split; [|split; [lia|intros _; left; split; reflexivity]].
    rewrite O. rewrite firstn_app_ge by (rewrite nonce_bytes_length; lia).
    rewrite nonce_bytes_length, firstn_app_le by lia. do 2 f_equal. lia. }
  rewrite S1a in Hrun by exact H1.
  set (b2 := b - 12 - N.of_nat (length ext1)) in *.
  rewrite wdrop_live in Hrun by exact F1.
  destruct (N.lt_ge_cases b2 (N.of_nat (length ext2))) as [H2|H2].
  { destruct (flush_fail (setb s1 (Some b2)) b2 eq_refl H2) as [t' [E [O _]]].
    rewrite E in Hrun. inversion Hrun; subst.
    split; [|split; [lia|intros _; right; repeat split]].
    - rewrite O. cbn [setb w_out w_nonce w_buf]. fold cs2. fold ext2. rewrite O1.
      rewrite (app_assoc (nonce_bytes n0)).
      rewrite firstn_app_ge by (rewrite app_length, nonce_bytes_length; lia).
      rewrite app_length, nonce_bytes_length. do 2 f_equal. lia.
    - intros Hnil. unfold ext2, cs2 in H2. rewrite Hnil in H2. cbn in H2. lia. }
  rewrite flush_fits in Hrun by exact H2.
  cbn [setb w_out w_nonce w_buf] in Hrun. fold cs2 in Hrun. fold ext2 in Hrun.
  inversion Hrun; subst.
  split; [|split; [intros _; split; reflexivity|lia]].
  rewrite O1, <- app_assoc. symmetry. apply firstn_all2.
  rewrite !app_length, nonce_bytes_length. lia.
Qed.

End Writer.

(* 2 *)
Definition written (ops : list wop) : bytes := flat_map (fun op => match op with OpWrite d => d | OpFlush => [] end) ops.
Theorem writer_roundtrip : forall k n0 ops, (fst n0 < Bytes.U64)%N -> (snd n0 < U32M)%N ->
  decrypt_file k (honest_file key seal k n0 ops) = Ok (written ops)
  /\ snd (fst (run_writer key seal k n0 None ops)) = WOk /\ snd (run_writer key seal k n0 None ops) = WOk.
Proof.
  intros k n0 ops H1 H2. destruct (writer_chars k n0 ops) as (cs & s1 & Hok & Hc & _ & Hn & _).
  unfold honest_file. rewrite Hn. cbn [fst snd]. split; [|split; reflexivity].
  rewrite decrypt_encrypt by assumption. f_equal. exact Hc.
Qed.

(* 3 *)
Theorem writer_fault_prefix : forall k n0 ops b,
  let '(out, r1, r2) := run_writer key seal k n0 (Some b) ops in
  out = firstn (N.to_nat (N.min b (N.of_nat (length (honest_file key seal k n0 ops))))) (honest_file key seal k n0 ops)
  /\ ((N.of_nat (length (honest_file key seal k n0 ops)) <= b)%N -> r1 = WOk /\ r2 = WOk)
  /\ ((b < N.of_nat (length (honest_file key seal k n0 ops)))%N ->
      (r1 = WErr /\ r2 = WOk) \/ (r1 = WOk /\ r2 = WPanic)).
Proof.
  intros k n0 ops b. destruct (writer_chars k n0 ops) as (cs & s1 & _ & _ & _ & Hn & Hb).
  destruct (run_writer key seal k n0 (Some b) ops) as [[out r1] r2] eqn:E.
  unfold honest_file. rewrite Hn. cbn [fst].
  destruct (Hb b out r1 r2 E) as [A [B C]]. split; [exact A|]. split; [exact B|].
  intros H. destruct (C H) as [D|[D1 [D2 _]]]; [left; exact D|right; split; assumption].
Qed.

(* 3b: a program that ends with an explicit flush *)
Theorem writer_fault_flushed : forall k n0 ops b,
  let '(out, r1, r2) := run_writer key seal k n0 (Some b) (ops ++ [OpFlush]) in
  r2 = WOk
  /\ (r1 = WOk <-> (N.of_nat (length (honest_file key seal k n0 (ops ++ [OpFlush]))) <= b)%N)
  /\ (r1 = WOk \/ r1 = WErr).
Proof.
  intros k n0 ops b. destruct (writer_chars k n0 (ops ++ [OpFlush])) as (cs & s1 & _ & _ & Hr & Hn & Hb).
  assert (Hbuf : w_buf s1 = []).
  { rewrite run_ops_app in Hr.
    destruct (run_ops key seal k (WS [] false n0 (nonce_bytes n0) None) ops) as [s' [| |]]; try discriminate.
    cbn [Crypto.run_ops] in Hr.
    destruct (flush key seal k s') as [s2 [| |]] eqn:Ef; try discriminate.
    inversion Hr; subst. eapply flush_ok_buf; exact Ef. }
  destruct (run_writer key seal k n0 (Some b) (ops ++ [OpFlush])) as [[out r1] r2] eqn:E.
  unfold honest_file. rewrite Hn. cbn [fst].
  destruct (Hb b out r1 r2 E) as [_ [B C]].
  destruct (N.lt_ge_cases b (N.of_nat (length (encrypt_chunks k n0 cs)))) as [H|H].
  - destruct (C H) as [[D1 D2]|[_ [_ D3]]]; [|congruence]. subst.
    split; [reflexivity|]. split; [|right; reflexivity]. split; [discriminate|lia].
  - destruct (B H) as [D1 D2]. subst. split; [reflexivity|]. split; [|left; reflexivity].
    split; [intros _; exact H|reflexivity].
Qed.

(* ---------- 4. drop after a failed flush; failure of the implicit flush ---------- *)

Theorem drop_after_failed_flush_silent : forall k,
  run_writer key seal k (0, 0) (Some 13) [OpWrite [1; 2; 3]; OpFlush] = (nonce_bytes (0, 0) ++ [19], WErr, WOk).
Proof. intros k. vm_compute. reflexivity. Qed.

Theorem implicit_flush_failure_panics : forall k,
  run_writer key seal k (0, 0) (Some 13) [OpWrite [1; 2; 3]] = (nonce_bytes (0, 0) ++ [19], WOk, WPanic).
Proof. intros k. vm_compute. reflexivity. Qed.

(* ---------- 7. tampering ---------- *)

Fixpoint pairs (k : key) (n : nonce) (cs : list bytes) : list (nonce * bytes) :=
  match cs with [] => [] | c :: r => (advance n, seal k (advance n) c) :: pairs k (advance n) r end.

(* frame bodies with their position nonces *)
Fixpoint opened (n : nonce) (bodies : list bytes) : list (nonce * bytes) :=
  match bodies with [] => [] | b :: r => (advance n, b) :: opened (advance n) r end.
Fixpoint sealed (k : key) (n : nonce) (cs : list bytes) : list bytes :=
  match cs with [] => [] | c :: r => seal k (advance n) c :: sealed k (advance n) r end.
Definition enc_body (b : bytes) : bytes := le 8 (N.of_nat (length b)) ++ b.
Definition enc_bodies (bs : list bytes) : bytes := concat (map enc_body bs).

Lemma pairs_opened k cs : forall n, pairs k n cs = opened n (sealed k n cs).
Proof. induction cs as [|c r IH]; intros n; cbn [pairs opened sealed]; [reflexivity|now rewrite IH]. Qed.

Lemma frames_enc k cs : forall n, fst (frames k n cs) = enc_bodies (sealed k n cs).
Proof.
  induction cs as [|c r IH]; intros n; [reflexivity|].
  rewrite frames_cons. cbn [fst sealed]. unfold enc_bodies. cbn [map concat]. fold (enc_bodies (sealed k (advance n) r)).
  rewrite <- IH. f_equal. unfold Crypto.frame, enc_body. rewrite seal_length, Nat2N.inj_add. reflexivity.
Qed.

Lemma enc_bodies_app a b : enc_bodies (a ++ b) = enc_bodies a ++ enc_bodies b.
Proof. unfold enc_bodies. now rewrite map_app, concat_app. Qed.

Lemma enc_bodies_len0 l : length (enc_bodies l) = 0%nat -> l = [].
Proof.
  destruct l as [|b r]; [reflexivity|]. unfold enc_bodies, enc_body. cbn [map concat].
  rewrite !app_length, le_length. lia.
Qed.

Lemma take_exact_cases w bs : (exists a r, take_exact w bs = Ok (a, r)) \/ take_exact w bs = Err EEof.
Proof. unfold take_exact. destruct (Nat.leb w (length bs)); [left; eauto|right; reflexivity]. Qed.

Lemma rf_cases f k n bs : bs <> [] ->
  (exists e, read_frames (S f) k n bs = Err e) \/
  (exists a body r' p, bs = a ++ body ++ r' /\ length a = 8%nat /\ N.of_nat (length body) = unle a
     /\ open k (advance n) body = Some p
     /\ read_frames (S f) k n bs = (let* rest := read_frames f k (advance n) r' in Ok (p ++ rest))).
Proof.
  intros Hne. rewrite read_frames_nonempty by exact Hne. unfold rd_le.
  destruct (take_exact_cases 8 bs) as [[a [r T1]]|T1]; rewrite T1; cbn [bind];
    [|left; eexists; reflexivity].
  destruct (BUFSIZE + TAGLEN <? unle a); [left; eexists; reflexivity|].
  destruct (take_exact_cases (N.to_nat (unle a)) r) as [[body [r' T2]]|T2]; rewrite T2; cbn [bind];
    [|left; eexists; reflexivity].
  destruct (open k (advance n) body) as [p|] eqn:Op; [|left; eexists; reflexivity].
  right. exists a, body, r', p.
  apply take_exact_ok in T1 as [E1 L1]. apply take_exact_ok in T2 as [E2 L2].
  subst bs r. repeat split; try assumption; try reflexivity. rewrite L2. apply N2Nat.id.
Qed.

Lemma rf_total fuel k : forall n bs, (length bs <= fuel)%nat ->
  (exists p, read_frames fuel k n bs = Ok p) \/ (exists e, read_frames fuel k n bs = Err e).
Proof.
  induction fuel as [|f IH]; intros n bs Hl.
  - destruct bs; [left; eexists; reflexivity|cbn in Hl; lia].
  - destruct bs as [|x bs']; [left; eexists; reflexivity|].
    destruct (rf_cases f k n (x :: bs') ltac:(discriminate)) as [[e He]|(a & body & r' & p & E & La & _ & _ & R)].
    + right. exists e. exact He.
    + rewrite R. destruct (IH (advance n) r') as [[q Hq]|[e He]].
      * apply (f_equal (@length _)) in E. rewrite !app_length in E. lia.
      * left. rewrite Hq. eexists; reflexivity.
      * right. rewrite He. eexists; reflexivity.
Qed.

Lemma rf_ok_inv fuel k : forall n bs p, wfb bs -> read_frames fuel k n bs = Ok p ->
  exists B, bs = enc_bodies B /\ forall x, In x (opened n B) -> exists q, open k (fst x) (snd x) = Some q.
Proof.
  induction fuel as [|f IH]; intros n bs p Hwf H.
  - destruct bs; [|discriminate]. exists []. split; [reflexivity|]. intros x [].
  - destruct bs as [|x0 bs']; [exists []; split; [reflexivity|intros x []]|].
    destruct (rf_cases f k n (x0 :: bs') ltac:(discriminate)) as [[e He]|(a & body & r' & p0 & E & La & Lb & Op & R)].
    + rewrite He in H. discriminate.
    + rewrite R in H. destruct (read_frames f k (advance n) r') as [rest| | |] eqn:Rr; cbn [bind] in H; try discriminate.
      rewrite E in Hwf. apply wfb_app in Hwf as [Wa Wr]. apply wfb_app in Wr as [Wb Wr].
      destruct (IH (advance n) r' rest Wr Rr) as [B [EB HB]].
      exists (body :: B). split.
      * rewrite E, EB. unfold enc_bodies. cbn [map concat]. unfold enc_body at 2.
        rewrite Lb. pose proof (le_unle a Wa) as Hle. rewrite La in Hle. rewrite Hle, <- app_assoc. reflexivity.
      * cbn [opened]. intros x [<-|Hx]; [exists p0; exact Op|apply HB; exact Hx].
Qed.

Lemma In_opened L : forall n x b, In (x, b) (opened n L) ->
  exists j, (j < length L)%nat /\ x = advance_n (S j) n /\ nth_error L j = Some b.
Proof.
  induction L as [|l r IH]; intros n x b H; [destruct H|].
  cbn [opened] in H. destruct H as [H|H].
  - inversion H; subst. exists O. cbn [length]. repeat split. lia.
  - destruct (IH _ _ _ H) as [j [Hj [Hx Hn]]]. exists (S j). cbn [length]. split; [lia|]. split; [|exact Hn].
    rewrite Hx, advance_n_comm. reflexivity.
Qed.

Lemma nth_error_skipn {A} (l : list A) : forall d b, nth_error l d = Some b -> skipn d l = b :: skipn (S d) l.
Proof.
  induction l as [|a l IH]; intros [|d] b H; cbn in H; try discriminate.
  - inversion H; reflexivity.
  - cbn [skipn]. apply IH; exact H.
Qed.

Lemma walk n0 L : inr n0 -> N.of_nat (length L) < NM ->
  forall B' n' d, advance n' = advance_n (S d) n0 -> (d <= length L)%nat ->
  (forall x, In x (opened n' B') -> In x (opened n0 L)) ->
  exists L2, skipn d L = B' ++ L2.
Proof.
  intros Hn0 HL. induction B' as [|b r IH]; intros n' d Hadv Hd Hin.
  - exists (skipn d L). reflexivity.
  - assert (H0 : In (advance n', b) (opened n0 L)) by (apply Hin; left; reflexivity).
    apply In_opened in H0 as [j [Hj [Hx Hnth]]].
    assert (j = d).
    { rewrite Hadv in Hx. apply advance_n_eq in Hx; [lia|exact Hn0|lia|lia]. }
    subst j. destruct (IH (advance n') (S d)) as [L2 E2].
    + rewrite Hadv. reflexivity.
    + lia.
    + intros x Hx'. apply Hin. right. exact Hx'.
    + exists L2. rewrite (nth_error_skipn _ _ _ Hnth), E2. reflexivity.
Qed.

Lemma sealed_length k cs : forall n, length (sealed k n cs) = length cs.
Proof. induction cs as [|c r IH]; intros n; cbn [sealed length]; [reflexivity|now rewrite IH]. Qed.

Theorem tamper_detected : forall k n0 cs, (fst n0 < Bytes.U64)%N -> (snd n0 < U32M)%N -> chunks_ok cs ->
  (N.of_nat (length cs) < Bytes.U64 * U32M)%N ->      (* extra premise: fewer than 2^96 frames, see report *)
  (forall n c p, open k n c = Some p -> In (n, c) (pairs k n0 cs)) ->
  NoDup (map fst (pairs k n0 cs)) ->
  forall f', length f' = length (encrypt_chunks k n0 cs) -> f' <> encrypt_chunks k n0 cs ->
  wfb f' ->
  exists e, decrypt_file k f' = Err e.
Proof.
  intros k n0 cs H1 H2 Hok Hbound Hnf _ f' Hlen Hne Hwf.
  assert (Hn0 : inr n0) by (split; assumption).
  unfold Crypto.decrypt_file.
  destruct (take_exact_cases 12 f') as [[nb [r T]]|T]; rewrite T; cbn [bind]; [|eexists; reflexivity].
  apply take_exact_ok in T as [Ef Lnb].
  set (n0' := (unle (firstn 8 nb), unle (skipn 8 nb))).
  destruct (rf_total (length r) k n0' r (le_n _)) as [[p Hp]|[e He]]; [|exists e; exact He].
  exfalso. apply Hne.
  rewrite Ef in Hwf. apply wfb_app in Hwf as [Wnb Wr].
  destruct (rf_ok_inv _ k n0' r p Wr Hp) as [B' [EB HB]].
  set (L := sealed k n0 cs).
  assert (HinL : forall x, In x (opened n0' B') -> In x (opened n0 L)).
  { intros [x b] Hx. destruct (HB _ Hx) as [q Hq]. cbn [fst snd] in Hq.
    unfold L. rewrite <- pairs_opened. eapply Hnf; exact Hq. }
  assert (Hcs : cs <> []).
  { intros ->. specialize (Hnf n0 (seal k n0 []) [] (open_seal _ _ _)). destruct Hnf. }
  assert (HLne : L <> []).
  { intros E. apply (f_equal (@length _)) in E. unfold L in E. rewrite sealed_length in E.
    destruct cs; [congruence|discriminate]. }
  unfold Crypto.encrypt_chunks in *. rewrite frames_enc in *. fold L in Hlen |- *.
  rewrite Ef, !app_length, nonce_bytes_length, Lnb, EB in Hlen.
  assert (Hnb8 : wfb (firstn 8 nb) /\ wfb (skipn 8 nb)).
  { apply wfb_app. rewrite firstn_skipn. exact Wnb. }
  assert (Hn0' : inr n0').
  { destruct Hnb8 as [W1 W2]. apply unle_bound in W1. apply unle_bound in W2.
    rewrite firstn_length_le in W1 by lia. rewrite skipn_length, Lnb in W2.
    split; [exact W1|exact W2]. }
  destruct B' as [|b0 B''].
  { exfalso. cbn in Hlen. destruct L as [|l0 L0]; [congruence|].
    unfold enc_bodies, enc_body in Hlen. cbn [map concat] in Hlen.
    rewrite !app_length, le_length in Hlen. lia. }
  assert (H0 : In (advance n0', b0) (opened n0 L)) by (apply HinL; left; reflexivity).
  apply In_opened in H0 as [j0 [Hj0 [Hx0 _]]].
  assert (HLlen : N.of_nat (length L) < NM) by (unfold L; rewrite sealed_length; exact Hbound).
  destruct (walk n0 L Hn0 HLlen (b0 :: B'') n0' j0 Hx0 ltac:(lia) HinL) as [L2 E2].
  assert (EL : L = firstn j0 L ++ (b0 :: B'') ++ L2) by (rewrite <- E2; symmetry; apply firstn_skipn).
  pose proof (f_equal (fun l => length (enc_bodies l)) EL) as EL'. cbv beta in EL'.
  rewrite !enc_bodies_app, !app_length in EL'.
  assert (Ez1 : firstn j0 L = []) by (apply enc_bodies_len0; lia).
  assert (Ez2 : L2 = []) by (apply enc_bodies_len0; lia).
  rewrite Ez1, Ez2, app_nil_r in EL. cbn [app] in EL.
  assert (j0 = 0%nat).
  { destruct j0; [reflexivity|]. destruct L; [congruence|]. cbn in Ez1. discriminate. }
  subst j0. cbn [advance_n] in Hx0.
  apply advance_inj in Hx0; [|exact Hn0'|exact Hn0].
  rewrite Ef, EB, <- EL. f_equal.
  rewrite <- (firstn_skipn 8 nb). unfold nonce_bytes. rewrite <- Hx0. unfold n0'. cbn [fst snd].
  destruct Hnb8 as [W1 W2]. apply le_unle in W1. apply le_unle in W2.
  rewrite firstn_length_le in W1 by lia. rewrite skipn_length, Lnb in W2.
  change (12 - 8)%nat with 4%nat in W2. rewrite W1, W2. reflexivity.
Qed.

(* With fewer than 2^96 frames the nonces are pairwise distinct, so the NoDup premise above is implied by the
   extra premise (kept in the statement as given). *)
Lemma nonces_distinct_opened L : forall n, inr n -> N.of_nat (length L) < NM -> NoDup (map fst (opened n L)).
Proof.
  induction L as [|l r IH]; intros n Hn HL; cbn [opened map fst]; constructor.
  - intros Hin. apply in_map_iff in Hin as [[x b] [Hx Hin]]. cbn [fst] in Hx. subst x.
    apply In_opened in Hin as [j [Hj [Hx _]]]. rewrite advance_n_comm in Hx.
    change (advance n) with (advance_n 1 n) in Hx at 1.
    change (advance (advance_n (S j) n)) with (advance_n (S (S j)) n) in Hx.
    cbn [length] in HL. apply advance_n_eq in Hx; [lia|exact Hn|lia|lia].
  - apply IH; [apply advance_inr; exact Hn|cbn [length] in HL; lia].
Qed.

Lemma nonces_distinct k n0 cs : inr n0 -> N.of_nat (length cs) < NM -> NoDup (map fst (pairs k n0 cs)).
Proof.
  intros Hn HL. rewrite pairs_opened. apply nonces_distinct_opened; [exact Hn|].
  rewrite sealed_length. exact HL.
Qed.

(* Why the extra premise: the nonce sequence has period 2^96, so a file of exactly 2^96 frames can be rotated by one
   frame (with the header nonce advanced) and still decrypts; the NoDup premise holds for such a file and the
   no-forgery premise is not violated, since only (nonce, ciphertext) pairs of the file itself are opened. *)
Lemma frames_snd k cs : forall n, snd (frames k n cs) = advance_n (length cs) (n).
Proof.
  induction cs as [|c r IH]; intros n; [reflexivity|].
  rewrite frames_cons. cbn [snd length]. rewrite IH. change (advance_n (S (length r)) n) with (advance (advance_n (length r) n)).
  now rewrite advance_n_comm.
Qed.

Lemma read_frames_rot k cs : forall n fuel nw c, chunks_ok cs -> N.of_nat (length c) <= BUFSIZE ->
  advance (snd (frames k n cs)) = nw ->
  (length (fst (frames k n cs)) + length (frame k nw c) <= fuel)%nat ->
  read_frames fuel k n (fst (frames k n cs) ++ frame k nw c) = Ok (concat cs ++ c).
Proof.
  induction cs as [|c' r IH]; intros n fuel nw c Hok Hc Hnw Hf.
  - cbn [Crypto.frames fst snd concat app length] in *. rewrite frame_length in Hf.
    destruct fuel as [|f]; [lia|]. rewrite <- (app_nil_r (frame k nw c)), rf_step by exact Hc.
    rewrite Hnw, open_seal, read_frames_nil. cbn [bind]. now rewrite app_nil_r.
  - inversion Hok as [|? ? [Hc1 Hc2] Hr]; subst.
    rewrite frames_cons in *. cbn [fst snd] in *. rewrite app_length, frame_length in Hf.
    destruct fuel as [|f]; [lia|]. rewrite <- app_assoc, rf_step by exact Hc2.
    rewrite open_seal, IH by (try assumption; try reflexivity; lia).
    cbn [bind concat]. now rewrite app_assoc.
Qed.

Lemma tamper_detected_counterexample : forall k n0 c r,
  (fst n0 < Bytes.U64)%N -> (snd n0 < U32M)%N -> chunks_ok (c :: r) ->
  N.of_nat (length (c :: r)) = (Bytes.U64 * U32M)%N ->
  let file := encrypt_chunks k n0 (c :: r) in
  let f' := nonce_bytes (advance n0) ++ fst (frames k (advance n0) r) ++ frame k (advance n0) c in
  length f' = length file /\ f' <> file /\ (wfb file -> wfb f')
  /\ decrypt_file k f' = Ok (concat r ++ c).
Proof.
  intros k n0 c r H1 H2 Hok Hlen file f'. unfold file, f', Crypto.encrypt_chunks.
  assert (Hn0 : inr n0) by (split; assumption).
  pose proof (advance_inr n0 Hn0) as Hn1.
  inversion Hok as [|? ? [Hc1 Hc2] Hr]; subst.
  rewrite frames_cons. cbn [fst].
  split; [rewrite !app_length, !nonce_bytes_length; lia|].
  split.
  { intros E. apply (f_equal (firstn 12)) in E.
    rewrite !firstn_len_app in E by apply nonce_bytes_length.
    pose proof (header_parse _ Hn1) as P1. rewrite E, header_parse in P1 by exact Hn0.
    apply (f_equal nval) in P1. rewrite nval_advance in P1 by exact Hn0.
    pose proof (nval_lt n0 Hn0). unfold NM, Bytes.U64, U32M in *. divmod_lia. }
  split.
  { intros W. apply wfb_app in W as [_ W]. apply wfb_app in W as [Wa Wb].
    apply wfb_app; split; [|apply wfb_app; split; assumption].
    unfold nonce_bytes. apply wfb_app; split; apply le_wfb. }
  rewrite decrypt_header by exact Hn1.
  apply read_frames_rot; try assumption; [|rewrite app_length; lia].
  rewrite frames_snd.
  change (advance (advance_n (length r) (advance n0))) with (advance_n (length (c :: r)) (advance n0)).
  replace (length (c :: r)) with (N.to_nat NM) by (unfold NM; rewrite <- Hlen; apply Nat2N.id).
  apply advance_period. exact Hn1.
Qed.

End CryptoProofs.

Print Assumptions decrypt_encrypt.
Print Assumptions writer_roundtrip.
Print Assumptions writer_fault_prefix.
Print Assumptions writer_fault_flushed.
Print Assumptions drop_after_failed_flush_silent.
Print Assumptions implicit_flush_failure_panics.
Print Assumptions truncated_file.
Print Assumptions wrong_key_rejected.
Print Assumptions tamper_detected.
Print Assumptions tamper_detected_counterexample.
Print Assumptions nonces_distinct.
Check decrypt_encrypt. Check writer_roundtrip. Check writer_fault_prefix. Check writer_fault_flushed.
Check drop_after_failed_flush_silent. Check implicit_flush_failure_panics.
Check truncated_file. Check wrong_key_rejected. Check tamper_detected. Check tamper_detected_counterexample.
