(* Harness.v — comparison functions used by the generated correspondence case files:
   each takes the case input and the observation printed by the Rust harness and runs the model. *)
From SF Require Import Bytes Schema.

Definition err_tag (e : err) : N :=
  match e with
  | EEof => 0 | EGeneral => 1 | EUtf8 => 2 | EWrongVersion => 3 | EInvalidChar => 4
  | ESchema => 5 | ELayout => 6 | EOther => 7
  end.
Definition err_eqb (a b : err) : bool := err_tag a =? err_tag b.

Inductive obs_de := ODeOk (consumed : N) (reser : bytes) | ODeErr (e : err) | ODePanic.

Definition agree_ser (fv : N) (s : schema) (obs : bytes) : bool := bytes_eqb (ser fv s) obs.

Definition agree_de (fv : N) (bs : bytes) (o : obs_de) : bool :=
  match de_top fv bs, o with
  | Ok (s, r), ODeOk c b2 => (c + len r =? len bs) && bytes_eqb (ser 2 s) b2
  | Err e, ODeErr e' => err_eqb e e'
  | Panic, ODePanic => true
  | _, _ => false
  end.

(* format-0 direction of the property: the real reader, given the model's format-0 bytes,
   returned the schema minus layout annotations *)
Definition agree_de0_strip (s : schema) (o : obs_de) : bool :=
  match o with
  | ODeOk c b2 => (c =? len (ser0 s)) && bytes_eqb (ser 2 (strip s)) b2
  | _ => false
  end.

Definition dres_tag (d : dres) : N := match d with DSame => 0 | DDiff => 1 | DPanic => 2 end.
Definition agree_diff (a b : schema) (rp : bool) (o : dres) : bool := dres_tag (diff a b rp) =? dres_tag o.
Definition agree_layout (a b : schema) (o : bool) : bool := Bool.eqb (layout_compatible a b) o.
