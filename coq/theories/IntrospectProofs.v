(* IntrospectProofs.v — proofs about the Introspect model: total_index enumerates flatten on
   well-formed results; dive never panics, does not run out of fuel at depth_of, and only
   produces well-formed results; the unlimited first frame. *)
From SF Require Import Bytes Introspect.
Require Import Lia ZArith NArith List Bool.
Import ListNotations.
Open Scope N_scope.

(* ------------------------------------------------------------------ *)
(* total_len / flatten / total_index                                   *)
(* ------------------------------------------------------------------ *)

Lemma total_len_cons fr rest : total_len (fr :: rest) = len (f_keyvals fr) + total_len rest.
Proof. reflexivity. Qed.

Lemma total_len_nil : total_len [] = 0.
Proof. reflexivity. Qed.

Lemma wf_cons_some s kvs lim rest :
  wf_frames (FR (Some s) kvs lim :: rest) = true -> s < len kvs /\ wf_frames rest = true.
Proof.
  cbn [wf_frames f_selected f_keyvals]. intros H. apply andb_prop in H as [H1 H2].
  apply N.ltb_lt in H1. auto.
Qed.

Lemma wf_cons_none kvs lim rest :
  wf_frames (FR None kvs lim :: rest) = true -> rest = [].
Proof.
  cbn [wf_frames f_selected f_keyvals]. destruct rest; [reflexivity|]. cbn. discriminate.
Qed.

(* split of the rows of a frame around a selection in range *)
Lemma split_sel (kvs : list elem) s :
  s < len kvs ->
  exists a b, kvs = a ++ b /\ length a = S (N.to_nat s) /\
              firstn (S (N.to_nat s)) kvs = a /\ skipn (S (N.to_nat s)) kvs = b.
Proof.
  intros H. unfold len in H.
  exists (firstn (S (N.to_nat s)) kvs), (skipn (S (N.to_nat s)) kvs).
  split; [symmetry; apply firstn_skipn|]. split; [|auto].
  rewrite firstn_length. lia.
Qed.

Lemma flatten_length : forall fs, wf_frames fs = true -> len (flatten fs) = total_len fs.
Proof.
  induction fs as [|[sel kvs lim] rest IH]; intros Hwf.
  - reflexivity.
  - rewrite total_len_cons. cbn [flatten f_selected f_keyvals]. destruct sel as [s|].
    + apply wf_cons_some in Hwf as [Hs Hr]. specialize (IH Hr).
      destruct (split_sel kvs s Hs) as (a & b & Hk & Hl & Ha & Hb).
      rewrite Ha, Hb. subst kvs. unfold len in *. rewrite !app_length. lia.
    + apply wf_cons_none in Hwf. subst rest. rewrite total_len_nil. lia.
Qed.

Lemma nth_error_nil_none {A} n : nth_error (@nil A) n = None.
Proof. destruct n; reflexivity. Qed.

Lemma total_index_impl_flatten : forall fs index cur,
  wf_frames fs = true -> cur <= index ->
  exists c', total_index_impl fs index cur = IOk (nth_error (flatten fs) (N.to_nat (index - cur)), c') /\
             (nth_error (flatten fs) (N.to_nat (index - cur)) = None -> c' = cur + total_len fs).
Proof.
  induction fs as [|[sel kvs lim] rest IH]; intros index cur Hwf Hle.
  - cbn [total_index_impl flatten]. exists cur. rewrite nth_error_nil_none, total_len_nil.
    split; [reflexivity|intros _; lia].
  - rewrite total_len_cons. cbn [total_index_impl flatten f_selected f_keyvals]. destruct sel as [s|].
    + apply wf_cons_some in Hwf as [Hs Hr].
      destruct (split_sel kvs s Hs) as (a & b & Hk & Hl & Ha & Hb).
      rewrite Ha, Hb. clear Ha Hb.
      pose proof (flatten_length rest Hr) as Hfl.
      unfold usub.
      destruct (N.leb_spec index (cur + s)) as [H1|H1].
      * destruct (N.leb_spec cur index) as [_|?]; [|lia].
        assert (Hd : (N.to_nat (index - cur) < length a)%nat) by lia.
        rewrite (nth_error_app1 a _ Hd).
        subst kvs. rewrite (nth_error_app1 a _ Hd).
        destruct (nth_error a (N.to_nat (index - cur))) eqn:E.
        -- exists cur. split; [reflexivity|discriminate].
        -- apply nth_error_None in E. lia.
      * assert (Hle' : cur + s + 1 <= index) by lia.
        destruct (IH index (cur + s + 1) Hr Hle') as (c' & Heq & Hnone).
        rewrite Heq. clear Heq.
        assert (Hsplit : N.to_nat (index - cur) = (length a + N.to_nat (index - (cur + s + 1)))%nat) by lia.
        rewrite Hsplit.
        rewrite (nth_error_app2 a) by lia.
        replace (length a + N.to_nat (index - (cur + s + 1)) - length a)%nat
          with (N.to_nat (index - (cur + s + 1))) by lia.
        destruct (nth_error (flatten rest) (N.to_nat (index - (cur + s + 1)))) as [e|] eqn:E.
        -- assert (Hx : nth_error (flatten rest ++ b) (N.to_nat (index - (cur + s + 1))) = Some e).
           { rewrite nth_error_app1; [exact E|]. apply nth_error_Some. rewrite E. discriminate. }
           rewrite Hx. exists c'. split; [reflexivity|discriminate].
        -- specialize (Hnone eq_refl). apply nth_error_None in E.
           unfold len in Hfl.
           destruct (N.leb_spec c' index) as [_|?]; [|lia].
           rewrite nth_error_app2 by exact E.
           subst kvs. unfold len. rewrite app_length.
           destruct (N.ltb_spec (index - c' + (s + 1)) (N.of_nat (length a + length b))) as [H2|H2].
           ++ exists c'. split; [|].
              ** f_equal. f_equal.
                 rewrite nth_error_app2 by lia. f_equal. lia.
              ** intros Hn. apply nth_error_None in Hn. lia.
           ++ destruct (N.leb_spec (s + 1) (N.of_nat (length a + length b))) as [_|?]; [|lia].
              exists (c' + (N.of_nat (length a + length b) - (s + 1))). split.
              ** f_equal. f_equal. symmetry. apply nth_error_None. lia.
              ** intros _. lia.
    + apply wf_cons_none in Hwf. subst rest. rewrite total_len_nil. unfold usub.
      destruct (N.leb_spec cur index) as [_|?]; [|lia].
      rewrite N.add_0_r.
      destruct (N.ltb_spec (index - cur) (len kvs)) as [H2|H2].
      * exists cur. split; [reflexivity|]. intros Hn. apply nth_error_None in Hn. unfold len in H2. lia.
      * destruct (N.leb_spec 0 (len kvs)) as [_|?]; [|lia].
        exists (cur + (len kvs - 0)). split.
        -- f_equal. f_equal. symmetry. apply nth_error_None. unfold len in H2. lia.
        -- intros _. lia.
Qed.

Theorem total_index_flatten : forall fs i, wf_frames fs = true ->
  total_index fs i = IOk (nth_error (flatten fs) (N.to_nat i)).
Proof.
  intros fs i Hwf. unfold total_index.
  destruct (total_index_impl_flatten fs i 0 Hwf) as (c' & Heq & _); [lia|].
  rewrite Heq. rewrite N.sub_0_r. reflexivity.
Qed.

Theorem total_index_spec : forall fs i, wf_frames fs = true ->
  (i < total_len fs -> exists e, total_index fs i = IOk (Some e)) /\
  (total_len fs <= i -> total_index fs i = IOk None).
Proof.
  intros fs i Hwf. rewrite (total_index_flatten fs i Hwf).
  pose proof (flatten_length fs Hwf) as Hfl. unfold len in Hfl. split; intros H.
  - destruct (nth_error (flatten fs) (N.to_nat i)) as [e|] eqn:E.
    + exists e; reflexivity.
    + apply nth_error_None in E. lia.
  - f_equal. apply nth_error_None. lia.
Qed.

(* ------------------------------------------------------------------ *)
(* dive: a standalone copy of the inner loop                            *)
(* ------------------------------------------------------------------ *)

Definition d_hit (sel : option N) (index : N) : bool :=
  match sel with Some s => index =? s | None => false end.
Definition d_matches (cur2 : option pathel) (selected : option N) (key : bytes) (dis : N) : bool :=
  match cur2, selected with
  | Some p, None => bytes_eqb (pe_key p) key && (pe_dis p =? dis)
  | _, _ => false
  end.

Section Loop.
Variable clc : option N.
Variable rec : list pathel -> N -> inode -> navcmd -> dres * list pathel.   (* dive fuel' *)
Variable depth : N.
Variable eh : bool.                                                          (* expanded_here *)
Variable cmd : navcmd.

Fixpoint dloop (todo done : list (bytes * inode)) (index : N) (path : list pathel) (sel : option N)
         (cur : option pathel) (selected : option N) (kvs : list elem) (sub : list frame)
         (cmd_left : bool) {struct todo} : dres * list pathel :=
  match todo with
  | [] => finish eh sel index path selected kvs sub false
  | (key, child) :: rest =>
      let dis := count_key key done in
      let hc := has_children child in
      let hit := d_hit sel index in
      let path2 := if hit then path ++ [PE key dis clc] else path in
      let sel2 := if hit then None else sel in
      let cur2 := if hit then Some (PE key dis clc) else cur in
      let matches := d_matches cur2 selected key dis in
      let kv := EL depth key dis (i_value child) hc matches in
      let step := fun (path3 : list pathel) (selected3 : option N) (sub3 : list frame) (cmd3 : bool) =>
          if reached (index + 1) (limit_of cur2 clc)
          then finish eh sel2 (index + 1) path3 selected3 (kv :: kvs) sub3 true
          else dloop rest (done ++ [(key, child)]) (index + 1) path3 sel2 cur2 selected3 (kv :: kvs) sub3 cmd3 in
      if matches then
        if hc then
          if cmd_left then
            match rec path2 (depth + 1) child cmd with
            | (DOk subres, path3) => step path3 (Some index) subres false
            | other => other
            end
          else (DPanic, path2)
        else step path2 (Some index) sub cmd_left
      else step path2 selected sub cmd_left
  end.
End Loop.

Definition d_bad (path : list pathel) (cmd : navcmd) : bool :=
  match cmd with Expand d _ _ => len path <? d | _ => false end.
Definition d_path1 (clc : option N) (path : list pathel) (depth : N) (cmd : navcmd) : list pathel :=
  match cmd with
  | Expand d k dis => if depth =? d then firstn (N.to_nat depth) path ++ [PE k dis clc] else path
  | _ => path
  end.
Definition d_eh (depth : N) (cmd : navcmd) : bool :=
  match cmd with Expand d _ _ => depth =? d | _ => false end.
Definition d_sel0 (depth : N) (cmd : navcmd) : option N :=
  match cmd with SelectNth d i => if depth =? d then Some i else None | _ => None end.

Lemma dive_0 clc path depth o cmd : dive clc O path depth o cmd = (DFuel, path).
Proof. reflexivity. Qed.

Lemma dive_S clc fuel path depth o cmd :
  dive clc (S fuel) path depth o cmd =
  if d_bad path cmd then (DErr BadDepth, path) else
  dloop clc (dive clc fuel) depth (d_eh depth cmd) cmd (i_children o) [] 0
        (d_path1 clc path depth cmd) (d_sel0 depth cmd)
        (nth_error (d_path1 clc path depth cmd) (N.to_nat depth)) None [] [] true.
Proof. reflexivity. Qed.

(* ------------------------------------------------------------------ *)
(* dive: no panic, well-formed results                                  *)
(* ------------------------------------------------------------------ *)

Definition good (r : dres * list pathel) : Prop :=
  match fst r with DOk fs => wf_frames fs = true | DPanic => False | _ => True end.

Record inv (eh : bool) (index : N) (path : list pathel) (selected : option N) (kvs : list elem)
       (sub : list frame) (cmd_left : bool) : Prop := {
  inv_len : index = len kvs;
  inv_sel : forall s, selected = Some s -> s < index;
  inv_none : selected = None -> sub = [];
  inv_sub : wf_frames sub = true;
  inv_cmd : cmd_left = false -> selected <> None;
  inv_path : selected = None -> eh = true -> path <> [] }.

Lemma len_cons {A} (x : A) l : len (x :: l) = len l + 1.
Proof. unfold len. cbn [length]. lia. Qed.

Lemma len_rev {A} (l : list A) : len (rev l) = len l.
Proof. unfold len. rewrite rev_length. reflexivity. Qed.

Lemma finish_good eh sel index path selected kvs sub limit cl :
  inv eh index path selected kvs sub cl -> good (finish eh sel index path selected kvs sub limit).
Proof.
  intros [Hlen Hsel Hnone Hsub Hcmd Hpath]. unfold finish, good.
  destruct sel; [exact I|].
  destruct selected as [s|].
  - rewrite andb_false_r. cbn [fst wf_frames f_selected f_keyvals].
    rewrite len_rev, <- Hlen, Hsub. specialize (Hsel s eq_refl).
    apply N.ltb_lt in Hsel. rewrite Hsel. reflexivity.
  - rewrite andb_true_r. destruct eh.
    + destruct path; [exfalso; apply Hpath; reflexivity|exact I].
    + cbn [fst wf_frames f_selected f_keyvals]. rewrite (Hnone eq_refl). reflexivity.
Qed.

Lemma d_matches_true cur2 selected key dis : d_matches cur2 selected key dis = true -> selected = None.
Proof. unfold d_matches. destruct cur2, selected; try discriminate; reflexivity. Qed.

Lemma inv_step_sel eh index path kvs sub cl p3 kv sub' cl' :
  inv eh index path None kvs sub cl -> wf_frames sub' = true ->
  inv eh (index + 1) p3 (Some index) (kv :: kvs) sub' cl'.
Proof.
  intros [Hlen Hsel Hnone Hsub Hcmd Hpath] Hwf. constructor.
  - rewrite len_cons. lia.
  - intros s Hs. inversion Hs. lia.
  - discriminate.
  - exact Hwf.
  - discriminate.
  - discriminate.
Qed.

Lemma inv_step_keep eh index path selected kvs sub cl p2 kv :
  inv eh index path selected kvs sub cl -> (path <> [] -> p2 <> []) ->
  inv eh (index + 1) p2 selected (kv :: kvs) sub cl.
Proof.
  intros [Hlen Hsel Hnone Hsub Hcmd Hpath] Hp. constructor; auto.
  - rewrite len_cons. lia.
  - intros s Hs. specialize (Hsel s Hs). lia.
Qed.

Lemma dloop_good clc rec depth eh cmd :
  (forall p d c cm, good (rec p d c cm)) ->
  forall todo done index path sel cur selected kvs sub cl,
    inv eh index path selected kvs sub cl ->
    good (dloop clc rec depth eh cmd todo done index path sel cur selected kvs sub cl).
Proof.
  intros Hrec. induction todo as [|[key child] rest IH]; intros done index path sel cur selected kvs sub cl Hinv.
  - cbn [dloop]. eapply finish_good; eauto.
  - cbn [dloop].
    assert (Hstep : forall (b : bool) p3 s3 sub3 c3 kv sel2 cur2,
               inv eh (index + 1) p3 s3 (kv :: kvs) sub3 c3 ->
               good (if b then finish eh sel2 (index + 1) p3 s3 (kv :: kvs) sub3 true
                     else dloop clc rec depth eh cmd rest (done ++ [(key, child)]) (index + 1) p3 sel2 cur2 s3
                                (kv :: kvs) sub3 c3)).
    { intros b p3 s3 sub3 c3 kv sel2 cur2 Hi. destruct b; [eapply finish_good; eauto|apply IH; exact Hi]. }
    set (hit := d_hit sel index).
    assert (Hp2 : path <> [] -> (if hit then path ++ [PE key (count_key key done) clc] else path) <> []).
    { destruct hit; auto. intros _. destruct path; discriminate. }
    set (path2 := if hit then path ++ [PE key (count_key key done) clc] else path) in *.
    destruct (d_matches _ selected key _) eqn:HM.
    + apply d_matches_true in HM. subst selected.
      destruct (has_children child).
      * destruct cl.
        -- pose proof (Hrec path2 (depth + 1) child cmd) as Hr.
           destruct (rec path2 (depth + 1) child cmd) as [[subres|e| |] p3].
           ++ apply Hstep. eapply inv_step_sel; eauto.
           ++ exact I.
           ++ exact Hr.
           ++ exact I.
        -- exfalso. destruct Hinv as [_ _ _ _ Hcmd _]. apply Hcmd; reflexivity.
      * apply Hstep. eapply inv_step_sel; eauto. destruct Hinv; auto.
    + apply Hstep. eapply inv_step_keep; eauto.
Qed.

Lemma dive_good : forall clc fuel path depth o cmd, good (dive clc fuel path depth o cmd).
Proof.
  intros clc. induction fuel as [|fuel IH]; intros path depth o cmd.
  - rewrite dive_0. exact I.
  - rewrite dive_S. destruct (d_bad path cmd); [exact I|].
    apply dloop_good; [intros; apply IH|].
    constructor; try reflexivity; try discriminate.
    + intros _ Heh. unfold d_eh in Heh. unfold d_path1. destruct cmd; try discriminate.
      rewrite Heh. destruct (firstn (N.to_nat depth) path); discriminate.
Qed.

Theorem dive_wf : forall clc fuel path depth o cmd fs p',
  dive clc fuel path depth o cmd = (DOk fs, p') -> wf_frames fs = true.
Proof.
  intros clc fuel path depth o cmd fs p' H. pose proof (dive_good clc fuel path depth o cmd) as G.
  unfold good in G. rewrite H in G. exact G.
Qed.

Theorem dive_no_panic : forall clc fuel path depth o cmd, fst (dive clc fuel path depth o cmd) <> DPanic.
Proof.
  intros clc fuel path depth o cmd H. pose proof (dive_good clc fuel path depth o cmd) as G.
  unfold good in G. rewrite H in G. exact G.
Qed.

(* ------------------------------------------------------------------ *)
(* dive: depth_of is enough fuel                                        *)
(* ------------------------------------------------------------------ *)

Lemma finish_no_fuel eh sel index path selected kvs sub limit :
  fst (finish eh sel index path selected kvs sub limit) <> DFuel.
Proof.
  unfold finish. destruct sel; [discriminate|].
  destruct (eh && _); [destruct path|]; discriminate.
Qed.

Lemma dloop_no_fuel clc rec depth eh cmd :
  forall todo,
    (forall k c, In (k, c) todo -> forall p d cm, fst (rec p d c cm) <> DFuel) ->
    forall done index path sel cur selected kvs sub cl,
      fst (dloop clc rec depth eh cmd todo done index path sel cur selected kvs sub cl) <> DFuel.
Proof.
  induction todo as [|[key child] rest IH]; intros Hrec done index path sel cur selected kvs sub cl.
  - cbn [dloop]. apply finish_no_fuel.
  - cbn [dloop].
    assert (Hstep : forall (b : bool) p3 s3 sub3 c3 kv sel2 cur2,
               fst (if b then finish eh sel2 (index + 1) p3 s3 (kv :: kvs) sub3 true
                    else dloop clc rec depth eh cmd rest (done ++ [(key, child)]) (index + 1) p3 sel2 cur2 s3
                               (kv :: kvs) sub3 c3) <> DFuel).
    { intros b p3 s3 sub3 c3 kv sel2 cur2. destruct b; [apply finish_no_fuel|].
      apply IH. intros k c Hin. apply (Hrec k c). right; exact Hin. }
    destruct (d_matches _ selected key _); [|apply Hstep].
    destruct (has_children child); [|apply Hstep].
    destruct cl; [|discriminate].
    match goal with |- context [rec ?p ?d child cmd] =>
      pose proof (Hrec key child (or_introl eq_refl) p d cmd) as Hr;
      destruct (rec p d child cmd) as [[subres|e| |] p3] end.
    + apply Hstep.
    + discriminate.
    + discriminate.
    + exact Hr.
Qed.

Lemma depth_of_child k c o : In (k, c) (i_children o) -> (S (depth_of c) <= depth_of o)%nat.
Proof.
  destruct o as [v l cs]. cbn [i_children].
  change (depth_of (INode v l cs))
    with (S (fold_right (fun p acc => Nat.max (depth_of (snd p)) acc) O cs)).
  induction cs as [|x cs IH]; cbn [In fold_right]; intros H; [contradiction|].
  destruct H as [H|H].
  - subst x. cbn [snd]. lia.
  - specialize (IH H). lia.
Qed.

Theorem dive_no_fuel : forall clc fuel path depth o cmd,
  (depth_of o <= fuel)%nat -> fst (dive clc fuel path depth o cmd) <> DFuel.
Proof.
  intros clc. induction fuel as [|fuel IH]; intros path depth o cmd Hd.
  - destruct o; cbn [depth_of] in Hd. lia.
  - rewrite dive_S. destruct (d_bad path cmd); [discriminate|].
    apply dloop_no_fuel. intros k c Hin p d cm. apply IH.
    apply depth_of_child in Hin. lia.
Qed.

(* ------------------------------------------------------------------ *)
(* do_introspect / run_cmds                                             *)
(* ------------------------------------------------------------------ *)

Definition safe_res (r : dres) : Prop :=
  match r with DOk fs => wf_frames fs = true | DErr _ => True | DPanic | DFuel => False end.

Lemma dive_safe clc path o cmd : safe_res (fst (dive clc (S (depth_of o)) path 0 o cmd)).
Proof.
  pose proof (dive_good clc (S (depth_of o)) path 0 o cmd) as G.
  pose proof (dive_no_fuel clc (S (depth_of o)) path 0 o cmd (Nat.le_succ_diag_r _)) as F.
  unfold good in G. unfold safe_res. destruct (fst (dive _ _ _ _ _ _)); auto.
Qed.

Theorem do_introspect_safe : forall st o cmd,
  match fst (do_introspect st o cmd) with
  | DOk fs => wf_frames fs = true
  | DErr _ => True
  | DPanic | DFuel => False
  end.
Proof.
  intros st o cmd. change (safe_res (fst (do_introspect st o cmd))).
  unfold do_introspect.
  assert (H : forall p, safe_res (fst (let '(r, p') := dive (is_clc st) (S (depth_of o)) p 0 o cmd in
                                        (r, IS p' (is_clc st))))).
  { intros p. pose proof (dive_safe (is_clc st) p o cmd) as S.
    destruct (dive _ _ _ _ _ _) as [r p']. exact S. }
  destruct cmd; try apply H.
  destruct (is_path st); [exact I|apply H].
Qed.

Theorem run_cmds_safe : forall cmds st o,
  Forall (fun r => match r with DOk fs => wf_frames fs = true | DErr _ => True | _ => False end)
         (run_cmds st o cmds).
Proof.
  induction cmds as [|c r IH]; intros st o; cbn [run_cmds]; [constructor|].
  pose proof (do_introspect_safe st o c) as S.
  destruct (do_introspect st o c) as [res st']. constructor; [|apply IH].
  cbn [fst] in S. destruct res; auto.
Qed.

Theorem nav_total_index : forall cmds st o,
  Forall (fun r => match r with
                   | DOk fs => forall i, (i < total_len fs -> exists e, total_index fs i = IOk (Some e)) /\
                                         (total_len fs <= i -> total_index fs i = IOk None)
                   | DErr _ => True | _ => False end) (run_cmds st o cmds).
Proof.
  intros cmds st o. eapply Forall_impl; [|apply run_cmds_safe].
  intros [fs|e| |] H; auto. intros i. apply total_index_spec. exact H.
Qed.

(* ------------------------------------------------------------------ *)
(* the unlimited first frame                                            *)
(* ------------------------------------------------------------------ *)

Fixpoint kv_of (done todo : list (bytes * inode)) : list elem :=
  match todo with
  | [] => []
  | (k, c) :: r => EL 0 k (count_key k done) (i_value c) (has_children c) false :: kv_of (done ++ [(k, c)]) r
  end.
Definition map_children o := kv_of [] (i_children o).

Lemma dloop_nothing rec : forall todo done index kvs,
  dloop None rec 0 false NavNothing todo done index [] None None None kvs [] true
  = (DOk [FR None (rev kvs ++ kv_of done todo) false], []).
Proof.
  induction todo as [|[k c] rest IH]; intros done index kvs.
  - cbn [dloop kv_of finish andb]. rewrite app_nil_r. reflexivity.
  - cbn [dloop d_hit d_matches reached limit_of kv_of]. rewrite IH.
    cbn [rev]. rewrite <- app_assoc. reflexivity.
Qed.

Theorem first_frame_unlimited : forall o,
  dive None (S (depth_of o)) [] 0 o NavNothing = (DOk [FR None (map_children o) false], []).
Proof.
  intros o. rewrite dive_S. cbn [d_bad d_path1 d_eh d_sel0].
  rewrite nth_error_nil_none. rewrite dloop_nothing. reflexivity.
Qed.

(* ------------------------------------------------------------------ *)
(* non-vacuity                                                          *)
(* ------------------------------------------------------------------ *)

Definition ex_leaf (v : N) : inode := INode [v] 0 [].
(* root: a, b (with children x, y), a again *)
Definition ex_o : inode :=
  INode [0] 3 [([97], ex_leaf 1);
               ([98], INode [2] 2 [([120], ex_leaf 20); ([121], ex_leaf 21)]);
               ([97], ex_leaf 3)].
Definition ex_cmds : list navcmd :=
  [NavNothing; SelectNth 0 1; SelectNth 1 0; NavUp; Expand 0 [98] 0; NavUp; NavUp].
Definition ex_run : list dres := run_cmds (IS [] None) ex_o ex_cmds.

Definition ex_shape (r : dres) : nat + option ierr :=
  match r with DOk fs => inl (length fs) | DErr e => inr (Some e) | _ => inr None end.

Example ex_run_shape :
  map ex_shape ex_run
  = [inl 1%nat; inl 2%nat; inl 2%nat; inl 2%nat; inl 2%nat; inl 1%nat; inr (Some AlreadyAtTop)].
Proof. vm_compute. reflexivity. Qed.

Definition ex_root_rows (sel_b : bool) : list elem :=
  [EL 0 [97] 0 [1] false false; EL 0 [98] 0 [2] true sel_b; EL 0 [97] 1 [3] false false].
Definition ex_sub_rows (sel_x : bool) : list elem :=
  [EL 1 [120] 0 [20] false sel_x; EL 1 [121] 0 [21] false false].

Example ex_run_value :
  ex_run
  = [DOk [FR None (ex_root_rows false) false];
     DOk [FR (Some 1) (ex_root_rows true) false; FR None (ex_sub_rows false) false];
     DOk [FR (Some 1) (ex_root_rows true) false; FR (Some 0) (ex_sub_rows true) false];
     DOk [FR (Some 1) (ex_root_rows true) false; FR None (ex_sub_rows false) false];
     DOk [FR (Some 1) (ex_root_rows true) false; FR None (ex_sub_rows false) false];
     DOk [FR None (ex_root_rows false) false];
     DErr AlreadyAtTop].
Proof. vm_compute. reflexivity. Qed.

Example ex_first_is_map_children :
  nth_error ex_run 0 = Some (DOk [FR None (map_children ex_o) false]).
Proof. vm_compute. reflexivity. Qed.

(* the third result: two frames, both with a selection *)
Definition ex_fs : list frame :=
  [FR (Some 1) (ex_root_rows true) false; FR (Some 0) (ex_sub_rows true) false].

Example ex_fs_from_run : nth_error ex_run 2 = Some (DOk ex_fs).
Proof. vm_compute. reflexivity. Qed.

Example ex_fs_wf : wf_frames ex_fs = true /\ total_len ex_fs = 5.
Proof. vm_compute. split; reflexivity. Qed.

Example ex_fs_flatten :
  flatten ex_fs
  = [EL 0 [97] 0 [1] false false; EL 0 [98] 0 [2] true true;
     EL 1 [120] 0 [20] false true; EL 1 [121] 0 [21] false false;
     EL 0 [97] 1 [3] false false].
Proof. vm_compute. reflexivity. Qed.

Example ex_total_index_enumerates :
  map (total_index ex_fs) [0; 1; 2; 3; 4; 5; 6]
  = map (fun i => IOk (nth_error (flatten ex_fs) (N.to_nat i))) [0; 1; 2; 3; 4; 5; 6].
Proof. vm_compute. reflexivity. Qed.

Example ex_total_index_values :
  total_index ex_fs 0 = IOk (Some (EL 0 [97] 0 [1] false false)) /\
  total_index ex_fs 2 = IOk (Some (EL 1 [120] 0 [20] false true)) /\
  total_index ex_fs 3 = IOk (Some (EL 1 [121] 0 [21] false false)) /\
  total_index ex_fs 4 = IOk (Some (EL 0 [97] 1 [3] false false)) /\
  total_index ex_fs 5 = IOk None.
Proof. vm_compute. repeat split; reflexivity. Qed.

(* the fourth result: selection in the first frame only *)
Example ex_total_index_enumerates' :
  let fs := [FR (Some 1) (ex_root_rows true) false; FR None (ex_sub_rows false) false] in
  nth_error ex_run 3 = Some (DOk fs) /\ wf_frames fs = true /\
  map (total_index fs) [0; 1; 2; 3; 4; 5]
  = map (fun i => IOk (nth_error (flatten fs) (N.to_nat i))) [0; 1; 2; 3; 4; 5].
Proof. vm_compute. repeat split; reflexivity. Qed.

(* wf_frames is needed: an out-of-range selection makes total_index panic *)
Example ex_not_wf_panics : total_index [FR (Some 5) (ex_sub_rows false) false] 3 = IPanic.
Proof. vm_compute. reflexivity. Qed.

Print Assumptions total_index_flatten.
Print Assumptions total_index_spec.
Print Assumptions dive_wf.
Print Assumptions dive_no_panic.
Print Assumptions dive_no_fuel.
Print Assumptions do_introspect_safe.
Print Assumptions run_cmds_safe.
Print Assumptions nav_total_index.
Print Assumptions first_frame_unlimited.
