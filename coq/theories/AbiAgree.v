(* AbiAgree.v — ties of the ABI model to the source as extracted on this run, and the consequence of fix F5:
   the number of methods of an interface is not limited. *)
From Coq Require Import String.
From SF Require Import Bytes Schema Abi AbiProofs.
From SFX Require Import Extracted.
Open Scope N_scope.

Lemma x_no_method_count_limit : x_method_count_limit = false /\ x_max_args_per_method = 64.
Proof. split; reflexivity. Qed.

(* the default branch of arg_layout_compatible as it stands in the source (fix F16): Abi.arg_layout_compatible models
   exactly this conjunction *)
Lemma x_byref_branch_agrees :
  x_byref_default_branch = "a.layout_compatible(b) && a == a_effective && b == b_effective"%string.
Proof. reflexivity. Qed.

Lemma analyze_go_all_missing ev ce cle cln : forall ms acc,
  (forall m, In m ms -> index_of_method (m_name m) (td_methods cln) = None) ->
  analyze_go ev ce cle cln ms acc = AOk (rev acc ++ map (fun m => CM (m_name m) None 0) ms).
Proof.
  induction ms as [|m r IH]; intros acc H.
  - cbn. rewrite app_nil_r. reflexivity.
  - cbn [analyze_go]. rewrite (H m (or_introl eq_refl)).
    rewrite IH by (intros m' Hm'; apply H; right; exact Hm').
    cbn [rev map]. rewrite <- app_assoc. reflexivity.
Qed.

(* an interface of ANY number of methods connects (here: against a callee that has none of them) *)
Theorem analyze_any_number_of_methods : forall ev ce cle cn cln,
  (forall m, In m (td_methods cn) -> index_of_method (m_name m) (td_methods cln) = None) ->
  analyze ev ce cle cn cln = AOk (map (fun m => CM (m_name m) None 0) (td_methods cn)).
Proof.
  intros. rewrite analyze_eq. rewrite analyze_go_all_missing by assumption. reflexivity.
Qed.
