(* Packed.v — memory images, and the serializer *as implemented* (whole-struct raw write,
   deferred same-alignment regions with the address-adjacency test, bulk sequence paths).
   A byte of an image is [None] when it is padding / never written (indeterminate).
   Definitions only; the soundness theorems are in PackedProofs.v. *)
From SF Require Import Bytes Ty.
Open Scope N_scope.

Definition img := list (option N).

Definition bufset (buf : img) (off : nat) (data : img) : img :=
  firstn off buf ++ data ++ skipn (off + length data) buf.

Definition somes (b : bytes) : img := map Some b.

Fixpoint concat_opt {A} (l : list (option (list A))) : option (list A) :=
  match l with
  | [] => Some []
  | None :: _ => None
  | Some a :: r => match concat_opt r with Some b => Some (a ++ b) | None => None end
  end.

(* the in-memory image of a value (x86-64, little endian), following the probed layout facts *)
Fixpoint mem (t : ty) (x : val) {struct t} : option img :=
  let mem_fields := fix mem_fields (fs : list fdef) (offs : list N) (xs : list val) (buf : img) {struct fs} : option img :=
      match fs, offs, xs with
      | [], _, [] => Some buf
      | f :: rf, o :: ro, y :: ry =>
          if is_removed f then mem_fields rf ro ry buf
          else match mem (fd_ty f) y with
               | Some m => mem_fields rf ro ry (bufset buf (N.to_nat o) m)
               | None => None
               end
      | _, _, _ => None
      end in
  match t, x with
  | TInt k, VInt z => Some (somes (le (ity_bytes k) (twos (ity_bytes k) z)))
  | TBool, VInt z => Some [Some (if (z =? 0)%Z then 0 else 1)]
  | TChar, VInt z => Some (somes (le 4 (Z.to_N z)))
  | TF32, VInt z => Some (somes (le 4 (Z.to_N z)))
  | TF64, VInt z => Some (somes (le 8 (Z.to_N z)))
  | TUnit, VUnit => Some []
  | TArray t n, VSeq l => concat_opt (map (mem t) l)
  | TCell t, y => mem t y
  | TTuple l ts, VRec xs =>
      (fix go (ts : list ty) (offs : list N) (xs : list val) (buf : img) {struct ts} : option img :=
         match ts, offs, xs with
         | [], _, [] => Some buf
         | t :: rt, o :: ro, y :: ry =>
             match mem t y with
             | Some m => go rt ro ry (bufset buf (N.to_nat o) m)
             | None => None
             end
         | _, _, _ => None
         end) ts (l_offs l) xs (repeat None (N.to_nat (l_size l)))
  | TStruct l fs, VRec xs => mem_fields fs (l_offs l) xs (repeat None (N.to_nat (l_size l)))
  | TEnum (Some w) l voffs vs, VVar idx xs =>
      (fix pick (vs0 : list vdef) (vo : list (list N)) (i : nat) {struct vs0} : option img :=
         match vs0, vo, i with
         | vd :: _, offs :: _, O =>
             mem_fields (vd_fields vd) offs xs
               (bufset (repeat None (N.to_nat (l_size l))) 0 (somes (le (N.to_nat w) idx)))
         | _ :: rv, _ :: ro, S j => pick rv ro j
         | _, _, _ => None
         end) vs voffs (N.to_nat idx)
  (* an enum without explicit repr: where the compiler keeps the tag is unknown (indeterminate bytes),
     but the fields of the live variant sit at their probed offsets *)
  | TEnum None l voffs vs, VVar idx xs =>
      (fix pick (vs0 : list vdef) (vo : list (list N)) (i : nat) {struct vs0} : option img :=
         match vs0, vo, i with
         | vd :: _, offs :: _, O => mem_fields (vd_fields vd) offs xs (repeat None (N.to_nat (l_size l)))
         | _ :: rv, _ :: ro, S j => pick rv ro j
         | _, _, _ => None
         end) vs voffs (N.to_nat idx)
  (* heap-backed / niche-optimised types (String, Vec, Option, Box, ...): opaque, not modelled;
     inside an aggregate their bytes stay indeterminate *)
  | TString, _ | TVec _, _ | TSeq _, _ | TOption _, _ | TResult _ _, _ | TBox _, _ => Some []
  | _, _ => None
  end.

Definition slice (m : img) (from to : N) : img :=
  firstn (N.to_nat to - N.to_nat from) (skipn (N.to_nat from) m).

(* compile_time_size / compile_time_check_reprc of savefile-derive/src/common.rs: decided on the
   *syntax* of the field type; only these take part in deferred regions *)
Fixpoint ct_size_align (t : ty) : option (N * N) :=
  match t with
  | TInt Usize | TInt Isize | TInt U128 | TInt I128 => None
  | TInt k => Some (N.of_nat (ity_bytes k), N.of_nat (ity_bytes k))
  | TChar => Some (4, 4) | TBool => Some (1, 1) | TF32 => Some (4, 4) | TF64 => Some (8, 8)
  | TUnit => Some (0, 1)
  | TArray t n => match ct_size_align t with Some (s, a) => Some (n * s, a) | None => None end
  | TTuple _ ts =>
      (fix go (ts : list ty) (first : option (N * N)) (acc : N) : option (N * N) :=
         match ts with
         | [] => match first with Some (_, a) => Some (acc, a) | None => None end
         | t :: rt =>
             match ct_size_align t with
             | None => None
             | Some sa =>
                 match first with
                 | Some sa0 => if (fst sa0 =? fst sa) && (snd sa0 =? snd sa) then go rt first (acc + fst sa) else None
                 | None => go rt (Some sa) (acc + fst sa)
                 end
             end
         end) ts None 0
  | _ => None
  end.

Fixpoint ct_reprc (t : ty) : bool :=
  match t with
  | TInt Usize | TInt Isize | TInt U128 | TInt I128 => false
  | TInt _ | TChar | TBool | TF32 | TF64 => true
  | TArray t n => if n =? 0 then true else ct_reprc t
  | TTuple _ ts =>
      (fix go (ts : list ty) (size : option (N * N)) : bool :=
         match ts with
         | [] => true
         | t :: rt =>
             ct_reprc t &&
             match ct_size_align t with
             | None => false
             | Some sa =>
                 if (fst sa =? 0) then go rt size
                 else match size with
                      | Some s0 => (fst s0 =? fst sa) && (snd s0 =? snd sa) && go rt size
                      | None => go rt (Some sa)
                      end
             end
         end) ts None
  | _ => false
  end.

Definition deferrable (f : fdef) : option N :=
  if full_range f && negb (is_removed f) && negb (is_ignored f) && ct_reprc (fd_ty f)
  then match ct_size_align (fd_ty f) with Some (_, a) => Some a | None => None end
  else None.

(* the serializer as implemented; an [img] because a raw region may contain indeterminate bytes *)
Definition concat_img (l : list (res img)) : res img :=
  fold_right (fun r acc => let* a := r in let* b := acc in Ok (a ++ b)) (Ok []) l.

Section Impl.
Variable v : N.

(* one deferred group: (field size, offset, field-wise result) triples, first to last *)
Definition realize (whole : option img) (grp : list (N * N * res img)) : res img :=
  match grp with
  | [] => Ok []
  | [(_, _, r)] => r
  | (s0, o0, _) :: _ =>
      let adjacent :=
        (fix adj (g : list (N * N * res img)) : bool :=
           match g with
           | (sa, oa, _) :: (((sb, ob, _) :: _) as rest) => (oa + sa =? ob) && adj rest
           | _ => true
           end) grp in
      if adjacent then
        match whole, last grp (s0, o0, Ok []) with
        | Some m, (sl, ol, _) => Ok (slice m o0 (ol + sl))
        | None, _ => Err EOther
        end
      else concat_img (map (fun p => snd p) grp)
  end.

Fixpoint impl_enc (t : ty) (x : val) {struct t} : res img :=
  (* implement_fields_serialize: the non-packed branch *)
  let fieldwise := fun (whole : option img) =>
    fix fw (fs : list fdef) (offs : list N) (xs : list val) (grp : option (N * list (N * N * res img))) {struct fs} : res img :=
      let flush := fun (g : option (N * list (N * N * res img))) =>
        match g with
        | Some (_, items) => realize whole (rev items)
        | None => Ok []
        end in
      match fs, offs, xs with
      | [], _, _ => flush grp
      | f :: rf, o :: ro, y :: ry =>
          if is_ignored f then fw rf ro ry grp
          else if full_range f then
            match deferrable f, grp with
            | Some a, Some (ga, items) =>
                if ga =? a then fw rf ro ry (Some (ga, (fsize f, o, impl_enc (fd_ty f) y) :: items))
                else let* pre := flush grp in let* cur := impl_enc (fd_ty f) y in
                     let* rest := fw rf ro ry None in Ok (pre ++ cur ++ rest)
            | Some a, None => fw rf ro ry (Some (a, [(fsize f, o, impl_enc (fd_ty f) y)]))
            | None, _ =>
                let* pre := flush grp in let* cur := impl_enc (fd_ty f) y in
                let* rest := fw rf ro ry None in Ok (pre ++ cur ++ rest)
            end
          else
            let* pre := flush grp in
            let* cur :=
              (if present v f then
                 match fd_kind f with
                 | FRemoved => Panic
                 | FAbiRemoved => impl_enc (fd_ty f) (fd_default f)
                 | _ => impl_enc (fd_ty f) y
                 end
               else Ok []) in
            let* rest := fw rf ro ry None in Ok (pre ++ cur ++ rest)
      | _, _, _ => Err EOther
      end in
  (* raw_write_region(self, first field, last field) *)
  let whole_region := fun (whole : option img) (fs : list fdef) (offs : list N) =>
    match fs, offs with
    | [], _ => Ok []
    | f0 :: _, o0 :: _ =>
        match whole with
        | Some m => Ok (slice m o0 (last offs 0 + fsize (last fs f0)))
        | None => Err EOther
        end
    | _, _ => Err EOther
    end in
  match t, x with
  | TVec t', VSeq l =>
      let* body := (if packed v t' then match concat_opt (map (mem t') l) with Some m => Ok m | None => Err EOther end
                    else concat_img (map (impl_enc t') l)) in
      Ok (somes (enc_usize (N.of_nat (length l))) ++ body)
  | TSeq t', VSeq l =>
      let* body := concat_img (map (impl_enc t') l) in
      Ok (somes (enc_usize (N.of_nat (length l))) ++ body)
  | TArray t' n, VSeq l =>
      if n =? 0 then Ok [] else
      if packed v t' then match concat_opt (map (mem t') l) with Some m => Ok m | None => Err EOther end
      else concat_img (map (impl_enc t') l)
  | TOption t', VNone => Ok [Some 0]
  | TOption t', VSome y => let* b := impl_enc t' y in Ok (Some 1 :: b)
  | TResult a b, VOk y => let* r := impl_enc a y in Ok (Some 1 :: r)
  | TResult a b, VErr y => let* r := impl_enc b y in Ok (Some 0 :: r)
  | TBox t', y => impl_enc t' y
  | TCell t', y => impl_enc t' y
  | TTuple _ ts, VRec xs =>
      (fix go (ts : list ty) (xs : list val) {struct ts} : res img :=
         match ts, xs with
         | [], [] => Ok []
         | t' :: rt, y :: ry => let* a := impl_enc t' y in let* b := go rt ry in Ok (a ++ b)
         | _, _ => Err EOther
         end) ts xs
  | TStruct l fs, VRec xs =>
      if packed v t then whole_region (mem t x) fs (l_offs l)
      else fieldwise (mem t x) fs (l_offs l) xs None
  | TEnum repr l voffs vs, VVar idx xs =>
      (fix pick (vs0 : list vdef) (vo : list (list N)) (i : nat) {struct vs0} : res img :=
         match vs0, vo, i with
         | vd :: _, offs :: _, O =>
             if in_range (vd_from vd) (vd_to vd) v then
               let* b := (if packed v t then whole_region (mem t x) (vd_fields vd) offs
                          else fieldwise (mem t x) (vd_fields vd) offs xs None) in
               Ok (somes (le (dwidth repr (length vs)) idx) ++ b)
             else Panic
         | _ :: rv, _ :: ro, S j => pick rv ro j
         | _, _, _ => Err EOther
         end) vs voffs (N.to_nat idx)
  | _, _ => match enc v t x with Ok b => Ok (somes b) | Err e => Err e | Panic => Panic | OutOfFuel => OutOfFuel end
  end.

End Impl.

(* every byte determinate *)
Fixpoint determinate (m : img) : option bytes :=
  match m with
  | [] => Some []
  | Some b :: r => match determinate r with Some bs => Some (b :: bs) | None => None end
  | None :: _ => None
  end.

(* ------------------------------------------------------------------ *)
(* Hypotheses of the soundness theorems. *)

(* Known class K13: an enum with an explicit repr that mixes field-less variants with variants
   carrying fields (the derive adds no padding condition for the field-less ones). *)
Fixpoint no_mixed_enum (t : ty) : bool :=
  let okf := fun f : fdef => no_mixed_enum (fd_ty f) in
  match t with
  | TVec t | TSeq t | TOption t | TBox t | TCell t | TArray t _ => no_mixed_enum t
  | TResult a b => no_mixed_enum a && no_mixed_enum b
  | TTuple _ ts => forallb no_mixed_enum ts
  | TStruct _ fs => forallb okf fs
  | TEnum repr _ _ vs =>
      forallb (fun vd : vdef => forallb okf (vd_fields vd)) vs
      && match repr with
         | Some _ => forallb (fun vd : vdef => match vd_fields vd with [] => true | _ => false end) vs
                     || forallb (fun vd : vdef => match vd_fields vd with [] => false | _ => true end) vs
         | None => true
         end
  | _ => true
  end.

(* What the compiler guarantees about the probed layout facts:
   - every non-removed field of a struct / tuple / variant lies inside the aggregate and the
     fields with non-zero size are pairwise disjoint (ranges [off, off + size_of));
   - a field-less enum with an explicit repr(uN) has exactly the size of its discriminant;
   - variant fields of a repr(uN) enum start after the discriminant. *)
Definition ranges_ok (total : N) (lo : N) (rs : list (N * N)) : bool :=
  forallb (fun r => (lo <=? fst r) && (fst r + snd r <=? total)) rs
  && (fix pairwise (l : list (N * N)) : bool :=
        match l with
        | [] => true
        | r :: rest =>
            forallb (fun q => (snd r =? 0) || (snd q =? 0) || (fst r + snd r <=? fst q) || (fst q + snd q <=? fst r)) rest
            && pairwise rest
        end) rs.

Fixpoint zip_ranges (offs : list N) (fs : list fdef) : list (N * N) :=
  match offs, fs with
  | o :: ro, f :: rf => (if is_removed f then [] else [(o, fsize f)]) ++ zip_ranges ro rf
  | _, _ => []
  end.

Fixpoint wf_layout (t : ty) : bool :=
  let okf := fun f : fdef => wf_layout (fd_ty f) in
  match t with
  | TVec t | TSeq t | TOption t | TBox t | TCell t | TArray t _ => wf_layout t
  | TResult a b => wf_layout a && wf_layout b
  | TTuple l ts =>
      forallb wf_layout ts && Nat.eqb (length (l_offs l)) (length ts)
      && ranges_ok (l_size l) 0 (combine (l_offs l) (map size_of ts))
  | TStruct l fs =>
      forallb okf fs && Nat.eqb (length (l_offs l)) (length fs)
      && ranges_ok (l_size l) 0 (zip_ranges (l_offs l) fs)
  | TEnum repr l voffs vs =>
      forallb (fun vd : vdef => forallb okf (vd_fields vd)) vs
      && Nat.eqb (length voffs) (length vs)
      && match repr with
         | Some w =>
             (if forallb (fun vd : vdef => match vd_fields vd with [] => true | _ => false end) vs
              then l_size l =? w else w <=? l_size l)
             && forallb (fun p : list N * vdef =>
                           Nat.eqb (length (fst p)) (length (vd_fields (snd p)))
                           && ranges_ok (l_size l) w (zip_ranges (fst p) (vd_fields (snd p))))
                        (combine voffs vs)
         | None =>
             forallb (fun p : list N * vdef =>
                           Nat.eqb (length (fst p)) (length (vd_fields (snd p)))
                           && ranges_ok (l_size l) 0 (zip_ranges (fst p) (vd_fields (snd p))))
                        (combine voffs vs)
         end
  | _ => true
  end.
