(* PackedProofs.v — soundness of the Packed decision and transparency of the implemented
   serializer with respect to the documented wire format. *)
From SF Require Import Bytes Ty TyProofs Packed.
Open Scope N_scope.

(* ------------------------------------------------------------------ *)
(* 5. The known defect class is real. *)

Definition mixed_enum : ty :=
  TEnum (Some 1) (Lay 2 1 [] false) [[]; [1]] [VD 0 None []; VD 0 None [FD (TInt U8) 0 None FNormal VUnit]].

Theorem packed_sound_refuted_mixed_enum :
  packed 0 mixed_enum = true /\ wf_layout mixed_enum = true /\ has_ty mixed_enum (VVar 0 []) = true
  /\ enc 0 mixed_enum (VVar 0 []) = Ok [0] /\ mem mixed_enum (VVar 0 []) = Some [Some 0; None]
  /\ impl_enc 0 (TVec mixed_enum) (VSeq [VVar 0 []]) = Ok (somes (enc_usize 1) ++ [Some 0; None]).
Proof. repeat split; vm_compute; reflexivity. Qed.

(* ------------------------------------------------------------------ *)
(* Standalone copies of the local fixpoints of Packed.v / Ty.v. *)

Section Pick3.
Variable A : Type.
Variable K : vdef -> list N -> A.
Variable Dflt : A.
Fixpoint pick3 (vs0 : list vdef) (vo : list (list N)) (i : nat) {struct vs0} : A :=
  match vs0, vo, i with
  | vd :: _, offs :: _, O => K vd offs
  | _ :: rv, _ :: ro, S j => pick3 rv ro j
  | _, _, _ => Dflt
  end.

Lemma pick3_nth vs vo i :
  pick3 vs vo i =
  match nth_error vs i, nth_error vo i with
  | Some vd, Some offs => K vd offs
  | _, _ => Dflt
  end.
Proof.
  revert vo i; induction vs as [|vd vs IH]; intros [|o vo] [|i]; cbn [pick3 nth_error]; try reflexivity.
  - destruct (nth_error vs i); reflexivity.
  - apply IH.
Qed.
End Pick3.
Arguments pick3 {A} K Dflt vs0 vo i.

Section MemMirror.
Variable M : ty -> val -> option img.

Fixpoint mflds (fs : list fdef) (offs : list N) (xs : list val) (buf : img) {struct fs} : option img :=
  match fs, offs, xs with
  | [], _, [] => Some buf
  | f :: rf, o :: ro, y :: ry =>
      if is_removed f then mflds rf ro ry buf
      else match M (fd_ty f) y with
           | Some m => mflds rf ro ry (bufset buf (N.to_nat o) m)
           | None => None
           end
  | _, _, _ => None
  end.

Fixpoint mtup (ts : list ty) (offs : list N) (xs : list val) (buf : img) {struct ts} : option img :=
  match ts, offs, xs with
  | [], _, [] => Some buf
  | t :: rt, o :: ro, y :: ry =>
      match M t y with
      | Some m => mtup rt ro ry (bufset buf (N.to_nat o) m)
      | None => None
      end
  | _, _, _ => None
  end.
End MemMirror.

Lemma mem_TInt k z : mem (TInt k) (VInt z) = Some (somes (le (ity_bytes k) (twos (ity_bytes k) z))).
Proof. reflexivity. Qed.
Lemma mem_TBool z : mem TBool (VInt z) = Some [Some (if (z =? 0)%Z then 0 else 1)].
Proof. reflexivity. Qed.
Lemma mem_TChar z : mem TChar (VInt z) = Some (somes (le 4 (Z.to_N z))).
Proof. reflexivity. Qed.
Lemma mem_TF32 z : mem TF32 (VInt z) = Some (somes (le 4 (Z.to_N z))).
Proof. reflexivity. Qed.
Lemma mem_TF64 z : mem TF64 (VInt z) = Some (somes (le 8 (Z.to_N z))).
Proof. reflexivity. Qed.
Lemma mem_TUnit : mem TUnit VUnit = Some [].
Proof. reflexivity. Qed.
Lemma mem_TArray t n l : mem (TArray t n) (VSeq l) = concat_opt (map (mem t) l).
Proof. reflexivity. Qed.
Lemma mem_TCell t y : mem (TCell t) y = mem t y.
Proof. reflexivity. Qed.
Lemma mem_TTuple l ts xs :
  mem (TTuple l ts) (VRec xs) = mtup mem ts (l_offs l) xs (repeat None (N.to_nat (l_size l))).
Proof. reflexivity. Qed.
Lemma mem_TStruct l fs xs :
  mem (TStruct l fs) (VRec xs) = mflds mem fs (l_offs l) xs (repeat None (N.to_nat (l_size l))).
Proof. reflexivity. Qed.
Lemma mem_TEnum_some w l vo vs idx xs :
  mem (TEnum (Some w) l vo vs) (VVar idx xs) =
  pick3 (fun vd offs =>
           mflds mem (vd_fields vd) offs xs
             (bufset (repeat None (N.to_nat (l_size l))) 0 (somes (le (N.to_nat w) idx))))
        None vs vo (N.to_nat idx).
Proof. reflexivity. Qed.
Lemma mem_TEnum_none l vo vs idx xs :
  mem (TEnum None l vo vs) (VVar idx xs) =
  pick3 (fun vd offs => mflds mem (vd_fields vd) offs xs (repeat None (N.to_nat (l_size l))))
        None vs vo (N.to_nat idx).
Proof. reflexivity. Qed.
Lemma mem_TString x : mem TString x = Some []. Proof. destruct x; reflexivity. Qed.
Lemma mem_TVec t x : mem (TVec t) x = Some []. Proof. destruct x; reflexivity. Qed.
Lemma mem_TSeq t x : mem (TSeq t) x = Some []. Proof. destruct x; reflexivity. Qed.
Lemma mem_TOption t x : mem (TOption t) x = Some []. Proof. destruct x; reflexivity. Qed.
Lemma mem_TResult a b x : mem (TResult a b) x = Some []. Proof. destruct x; reflexivity. Qed.
Lemma mem_TBox t x : mem (TBox t) x = Some []. Proof. destruct x; reflexivity. Qed.

(* packed *)
Definition sfield_pk (v : N) (f : fdef) : bool := is_removed f && negb (full_range f) || packed v (fd_ty f).
Definition efield_pk (v : N) (f : fdef) : bool := is_removed f || packed v (fd_ty f).
Definition smin (fs : list fdef) : N :=
  fold_right (fun f acc => if full_range f then acc else N.max acc (min_safe_of (fd_from f) (fd_to f))) 0 fs.
Definition emin_f (f : fdef) (acc : N) : N :=
  N.max (N.max acc (min_safe_of (fd_from f) (fd_to f)))
        (if is_removed f then match fd_to f with Some t => t + 1 | None => 0 end else 0).
Definition emin (vs : list vdef) : N :=
  fold_right (fun vd acc => fold_right emin_f acc (vd_fields vd)) 0 vs.

Section VChains.
Variables total w : N.
Fixpoint vchains (voffs : list (list N)) (vs : list vdef) {struct voffs} : bool :=
  match voffs, vs with
  | offs :: ro, vd :: rv =>
      (match vd_fields vd with
       | [] => true
       | _ => variant_chain total w offs (map fsize (vd_fields vd))
       end) && vchains ro rv
  | [], [] => true
  | _, _ => false
  end.
End VChains.

Lemma packed_TArray v t n : packed v (TArray t n) = packed v t. Proof. reflexivity. Qed.
Lemma packed_TCell v t : packed v (TCell t) = packed v t. Proof. reflexivity. Qed.
Lemma packed_TStruct v l fs :
  packed v (TStruct l fs) =
  negb (existsb is_ignored fs)
  && negb (existsb (fun f => full_range f && is_removed f) fs)
  && struct_chain (l_size l) (l_offs l) (map fsize fs)
  && (smin fs <=? v)
  && forallb (sfield_pk v) fs.
Proof. reflexivity. Qed.
Lemma packed_TEnum_some v w l vo vs :
  packed v (TEnum (Some w) l vo vs) =
  negb (l_explicit_discr l)
  && negb (existsb (fun vd => existsb is_ignored (vd_fields vd)) vs)
  && vchains (l_size l) w vo vs
  && (emin vs <=? v)
  && forallb (fun vd => forallb (efield_pk v) (vd_fields vd)) vs.
Proof. reflexivity. Qed.
Lemma packed_TEnum_none v l vo vs : packed v (TEnum None l vo vs) = false.
Proof. reflexivity. Qed.

(* wf_layout, no_mixed_enum *)
Definition fieldless (vd : vdef) : bool := match vd_fields vd with [] => true | _ => false end.
Definition fieldful (vd : vdef) : bool := match vd_fields vd with [] => false | _ => true end.

Lemma wf_layout_TTuple l ts :
  wf_layout (TTuple l ts) =
  forallb wf_layout ts && Nat.eqb (length (l_offs l)) (length ts)
  && ranges_ok (l_size l) 0 (combine (l_offs l) (map size_of ts)).
Proof. reflexivity. Qed.
Lemma wf_layout_TStruct l fs :
  wf_layout (TStruct l fs) =
  forallb (fun f => wf_layout (fd_ty f)) fs && Nat.eqb (length (l_offs l)) (length fs)
  && ranges_ok (l_size l) 0 (zip_ranges (l_offs l) fs).
Proof. reflexivity. Qed.
Lemma wf_layout_TEnum repr l vo vs :
  wf_layout (TEnum repr l vo vs) =
  forallb (fun vd : vdef => forallb (fun f => wf_layout (fd_ty f)) (vd_fields vd)) vs
  && Nat.eqb (length vo) (length vs)
  && match repr with
     | Some w =>
         (if forallb fieldless vs then l_size l =? w else w <=? l_size l)
         && forallb (fun p : list N * vdef =>
                       Nat.eqb (length (fst p)) (length (vd_fields (snd p)))
                       && ranges_ok (l_size l) w (zip_ranges (fst p) (vd_fields (snd p))))
                    (combine vo vs)
     | None =>
         forallb (fun p : list N * vdef =>
                       Nat.eqb (length (fst p)) (length (vd_fields (snd p)))
                       && ranges_ok (l_size l) 0 (zip_ranges (fst p) (vd_fields (snd p))))
                    (combine vo vs)
     end.
Proof. reflexivity. Qed.
Lemma no_mixed_TTuple l ts : no_mixed_enum (TTuple l ts) = forallb no_mixed_enum ts.
Proof. reflexivity. Qed.
Lemma no_mixed_TStruct l fs :
  no_mixed_enum (TStruct l fs) = forallb (fun f => no_mixed_enum (fd_ty f)) fs.
Proof. reflexivity. Qed.
Lemma no_mixed_TEnum repr l vo vs :
  no_mixed_enum (TEnum repr l vo vs) =
  forallb (fun vd : vdef => forallb (fun f => no_mixed_enum (fd_ty f)) (vd_fields vd)) vs
  && match repr with
     | Some _ => forallb fieldless vs || forallb fieldful vs
     | None => true
     end.
Proof. reflexivity. Qed.

(* wf_ty *)
Definition wf_fd (f : fdef) : bool :=
  wf_ty (fd_ty f)
  && match fd_to f with Some hi => fd_from f <=? hi | None => true end
  && match fd_kind f with
     | FNormal | FIgnored => match fd_to f with None => true | Some _ => false end
     | FRemoved | FAbiRemoved => match fd_to f with Some _ => true | None => false end
     end.
Lemma wf_ty_TTuple l ts :
  wf_ty (TTuple l ts) = forallb wf_ty ts && Nat.leb 1 (length ts) && Nat.leb (length ts) 4.
Proof. reflexivity. Qed.
Lemma wf_ty_TStruct l fs : wf_ty (TStruct l fs) = forallb wf_fd fs.
Proof. reflexivity. Qed.
Lemma wf_ty_TEnum repr l vo vs :
  wf_ty (TEnum repr l vo vs) =
  match repr with Some w => (w =? 1) || (w =? 2) || (w =? 4) | None => true end
  && (N.of_nat (length vs) <=? 256 ^ N.of_nat (dwidth repr (length vs)))
  && forallb (fun vd : vdef => forallb wf_fd (vd_fields vd)
                && match vd_to vd with Some hi => vd_from vd <=? hi | None => true end) vs.
Proof. reflexivity. Qed.

(* impl_enc *)
Section ImplMirror.
Variable v : N.
Variable I : ty -> val -> res img.
Variable whole : option img.

Definition flushg (g : option (N * list (N * N * res img))) : res img :=
  match g with
  | Some (_, items) => realize whole (rev items)
  | None => Ok []
  end.

Fixpoint fwg (fs : list fdef) (offs : list N) (xs : list val) (grp : option (N * list (N * N * res img))) {struct fs} : res img :=
  match fs, offs, xs with
  | [], _, _ => flushg grp
  | f :: rf, o :: ro, y :: ry =>
      if is_ignored f then fwg rf ro ry grp
      else if full_range f then
        match deferrable f, grp with
        | Some a, Some (ga, items) =>
            if ga =? a then fwg rf ro ry (Some (ga, (fsize f, o, I (fd_ty f) y) :: items))
            else let* pre := flushg grp in let* cur := I (fd_ty f) y in
                 let* rest := fwg rf ro ry None in Ok (pre ++ cur ++ rest)
        | Some a, None => fwg rf ro ry (Some (a, [(fsize f, o, I (fd_ty f) y)]))
        | None, _ =>
            let* pre := flushg grp in let* cur := I (fd_ty f) y in
            let* rest := fwg rf ro ry None in Ok (pre ++ cur ++ rest)
        end
      else
        let* pre := flushg grp in
        let* cur :=
          (if present v f then
             match fd_kind f with
             | FRemoved => Panic
             | FAbiRemoved => I (fd_ty f) (fd_default f)
             | _ => I (fd_ty f) y
             end
           else Ok []) in
        let* rest := fwg rf ro ry None in Ok (pre ++ cur ++ rest)
  | _, _, _ => Err EOther
  end.

Definition whole_region (fs : list fdef) (offs : list N) : res img :=
  match fs, offs with
  | [], _ => Ok []
  | f0 :: _, o0 :: _ =>
      match whole with
      | Some m => Ok (slice m o0 (last offs 0 + fsize (last fs f0)))
      | None => Err EOther
      end
  | _, _ => Err EOther
  end.

Fixpoint itup (ts : list ty) (xs : list val) {struct ts} : res img :=
  match ts, xs with
  | [], [] => Ok []
  | t' :: rt, y :: ry => let* a := I t' y in let* b := itup rt ry in Ok (a ++ b)
  | _, _ => Err EOther
  end.
End ImplMirror.

Definition lift_enc (r : res bytes) : res img :=
  match r with Ok b => Ok (somes b) | Err e => Err e | Panic => Panic | OutOfFuel => OutOfFuel end.

Lemma impl_TVec v t l :
  impl_enc v (TVec t) (VSeq l) =
  let* body := (if packed v t then match concat_opt (map (mem t) l) with Some m => Ok m | None => Err EOther end
                else concat_img (map (impl_enc v t) l)) in
  Ok (somes (enc_usize (N.of_nat (length l))) ++ body).
Proof. reflexivity. Qed.
Lemma impl_TSeq v t l :
  impl_enc v (TSeq t) (VSeq l) =
  let* body := concat_img (map (impl_enc v t) l) in
  Ok (somes (enc_usize (N.of_nat (length l))) ++ body).
Proof. reflexivity. Qed.
Lemma impl_TArray v t n l :
  impl_enc v (TArray t n) (VSeq l) =
  if n =? 0 then Ok [] else
  if packed v t then match concat_opt (map (mem t) l) with Some m => Ok m | None => Err EOther end
  else concat_img (map (impl_enc v t) l).
Proof. reflexivity. Qed.
Lemma impl_TOption_none v t : impl_enc v (TOption t) VNone = Ok [Some 0].
Proof. reflexivity. Qed.
Lemma impl_TOption_some v t y :
  impl_enc v (TOption t) (VSome y) = let* b := impl_enc v t y in Ok (Some 1 :: b).
Proof. reflexivity. Qed.
Lemma impl_TResult_ok v a b y :
  impl_enc v (TResult a b) (VOk y) = let* r := impl_enc v a y in Ok (Some 1 :: r).
Proof. reflexivity. Qed.
Lemma impl_TResult_err v a b y :
  impl_enc v (TResult a b) (VErr y) = let* r := impl_enc v b y in Ok (Some 0 :: r).
Proof. reflexivity. Qed.
Lemma impl_TBox v t y : impl_enc v (TBox t) y = impl_enc v t y.
Proof. reflexivity. Qed.
Lemma impl_TCell v t y : impl_enc v (TCell t) y = impl_enc v t y.
Proof. reflexivity. Qed.
Lemma impl_TTuple v l ts xs : impl_enc v (TTuple l ts) (VRec xs) = itup (impl_enc v) ts xs.
Proof. reflexivity. Qed.
Lemma impl_TStruct v l fs xs :
  impl_enc v (TStruct l fs) (VRec xs) =
  if packed v (TStruct l fs) then whole_region (mem (TStruct l fs) (VRec xs)) fs (l_offs l)
  else fwg v (impl_enc v) (mem (TStruct l fs) (VRec xs)) fs (l_offs l) xs None.
Proof. reflexivity. Qed.
Lemma impl_TEnum v repr l vo vs idx xs :
  impl_enc v (TEnum repr l vo vs) (VVar idx xs) =
  pick3 (fun vd offs =>
           if in_range (vd_from vd) (vd_to vd) v then
             let* b := (if packed v (TEnum repr l vo vs)
                        then whole_region (mem (TEnum repr l vo vs) (VVar idx xs)) (vd_fields vd) offs
                        else fwg v (impl_enc v) (mem (TEnum repr l vo vs) (VVar idx xs)) (vd_fields vd) offs xs None) in
             Ok (somes (le (dwidth repr (length vs)) idx) ++ b)
           else Panic) (Err EOther) vs vo (N.to_nat idx).
Proof. reflexivity. Qed.

(* ------------------------------------------------------------------ *)
(* Generic list lemmas: somes, bufset, reading a range back. *)

Lemma somes_app a b : somes (a ++ b) = somes a ++ somes b.
Proof. apply map_app. Qed.
Lemma somes_length b : length (somes b) = length b.
Proof. apply map_length. Qed.

Lemma bufset_nil buf o : bufset buf o [] = buf.
Proof. unfold bufset. cbn [app length]. rewrite Nat.add_0_r. apply firstn_skipn. Qed.

Lemma bufset_length buf o m :
  (o + length m <= length buf)%nat -> length (bufset buf o m) = length buf.
Proof.
  intros H. unfold bufset. rewrite !app_length, firstn_length, skipn_length. lia.
Qed.

Lemma skipn_repeat {A} (x : A) n k : skipn n (repeat x k) = repeat x (k - n).
Proof.
  revert k; induction n as [|n IH]; intros k.
  - rewrite Nat.sub_0_r. reflexivity.
  - destruct k as [|k]; [reflexivity|]. cbn [repeat skipn]. rewrite IH. reflexivity.
Qed.

Lemma bufset_tile (pre : img) k m :
  (length m <= k)%nat ->
  bufset (pre ++ repeat None k) (length pre) m = (pre ++ m) ++ repeat None (k - length m).
Proof.
  intros H. unfold bufset.
  rewrite firstn_app, Nat.sub_diag, firstn_all. cbn [firstn]. rewrite app_nil_r.
  rewrite skipn_app. rewrite skipn_all2 by lia.
  replace (length pre + length m - length pre)%nat with (length m) by lia.
  rewrite skipn_repeat. cbn [app]. rewrite app_assoc. reflexivity.
Qed.

Definition rd (L : img) (a n : nat) : img := firstn n (skipn a L).

Lemma skipn_add {A} a b (X : list A) : skipn (a + b) X = skipn b (skipn a X).
Proof.
  revert X; induction a as [|a IH]; intros X; [reflexivity|].
  destruct X as [|x X]; cbn [Nat.add skipn]; [now rewrite skipn_nil|apply IH].
Qed.

Lemma firstn_add {A} a b (X : list A) : firstn (a + b) X = firstn a X ++ firstn b (skipn a X).
Proof.
  revert X; induction a as [|a IH]; intros X; [reflexivity|].
  destruct X as [|x X]; cbn [Nat.add firstn skipn app]; [now rewrite firstn_nil|].
  rewrite IH. reflexivity.
Qed.

Lemma rd_split L o a b : rd L o (a + b) = rd L o a ++ rd L (o + a) b.
Proof. unfold rd. rewrite firstn_add, skipn_add. reflexivity. Qed.

Lemma rd_zero L a : rd L a 0 = [].
Proof. reflexivity. Qed.

Lemma rd_all L : rd L 0 (length L) = L.
Proof. unfold rd. cbn [skipn]. apply firstn_all. Qed.

Lemma rd_app_l (A X : img) a n : (a + n <= length A)%nat -> rd (A ++ X) a n = rd A a n.
Proof.
  intros H. unfold rd. rewrite skipn_app.
  replace (a - length A)%nat with 0%nat by lia. cbn [skipn].
  rewrite firstn_app, skipn_length.
  replace (n - (length A - a))%nat with 0%nat by lia. cbn [firstn]. apply app_nil_r.
Qed.

Lemma rd_app_r (A X : img) a n : (length A <= a)%nat -> rd (A ++ X) a n = rd X (a - length A) n.
Proof.
  intros H. unfold rd. rewrite skipn_app, skipn_all2 by lia. reflexivity.
Qed.

Lemma rd_bufset_same buf o m :
  (o + length m <= length buf)%nat -> rd (bufset buf o m) o (length m) = m.
Proof.
  intros H. unfold bufset.
  rewrite rd_app_r by (rewrite firstn_length; lia).
  rewrite firstn_length. replace (o - Nat.min o (length buf))%nat with 0%nat by lia.
  rewrite rd_app_l by lia. apply rd_all.
Qed.

Lemma rd_bufset_other buf o m a n :
  (o + length m <= length buf)%nat -> (a + n <= o \/ o + length m <= a)%nat ->
  rd (bufset buf o m) a n = rd buf a n.
Proof.
  intros H [D|D].
  - rewrite <- (firstn_skipn o buf) at 2. unfold bufset.
    rewrite !rd_app_l by (rewrite firstn_length; lia). reflexivity.
  - assert (Hb : buf = (firstn o buf ++ firstn (length m) (skipn o buf)) ++ skipn (o + length m) buf).
    { rewrite <- app_assoc, skipn_add. rewrite (firstn_skipn (length m)). symmetry; apply firstn_skipn. }
    rewrite Hb at 2. unfold bufset. rewrite (app_assoc (firstn o buf) m).
    rewrite !rd_app_r by (rewrite !app_length, ?firstn_length, ?skipn_length; lia).
    f_equal. rewrite !app_length, !firstn_length, skipn_length. lia.
Qed.

(* blitting a list of (offset, declared size, image) items *)
Definition item := (N * N * img)%type.
Definition it_off (p : item) : N := fst (fst p).
Definition it_size (p : item) : N := snd (fst p).
Definition it_img (p : item) : img := snd p.

Fixpoint blits (buf : img) (its : list item) : img :=
  match its with
  | [] => buf
  | p :: r => blits (bufset buf (N.to_nat (it_off p)) (it_img p)) r
  end.

Definition it_inb (total : N) (p : item) : Prop :=
  (length (it_img p) <= N.to_nat (it_size p))%nat /\ it_off p + it_size p <= total.
Definition rg_disj (r q : N * N) : Prop :=
  snd r = 0 \/ snd q = 0 \/ fst r + snd r <= fst q \/ fst q + snd q <= fst r.
Fixpoint pairwiseP (l : list (N * N)) : Prop :=
  match l with
  | [] => True
  | r :: rest => Forall (rg_disj r) rest /\ pairwiseP rest
  end.

Lemma blits_length total buf its :
  length buf = N.to_nat total -> Forall (it_inb total) its -> length (blits buf its) = N.to_nat total.
Proof.
  revert buf; induction its as [|p its IH]; intros buf Hl Hf; [exact Hl|].
  inversion Hf as [|? ? [H1 H2] Hr]; subst. cbn [blits]. apply IH; [|exact Hr].
  rewrite bufset_length; [exact Hl|lia].
Qed.

Lemma blits_rd_other total buf its a n :
  length buf = N.to_nat total -> Forall (it_inb total) its ->
  Forall (fun p => it_img p = [] \/ (a + n <= N.to_nat (it_off p))%nat
                   \/ (N.to_nat (it_off p) + length (it_img p) <= a)%nat) its ->
  rd (blits buf its) a n = rd buf a n.
Proof.
  revert buf; induction its as [|p its IH]; intros buf Hl Hf Hd; [reflexivity|].
  inversion Hf as [|? ? [H1 H2] Hr]; subst. inversion Hd as [|? ? Hd1 Hd2]; subst.
  cbn [blits]. rewrite IH; [| |exact Hr|exact Hd2].
  - destruct Hd1 as [E|D]; [rewrite E, bufset_nil; reflexivity|].
    apply rd_bufset_other; [lia|exact D].
  - rewrite bufset_length; [exact Hl|lia].
Qed.

Lemma blits_readback total buf its :
  length buf = N.to_nat total -> Forall (it_inb total) its ->
  pairwiseP (map (fun p => fst p) its) ->
  Forall (fun p => rd (blits buf its) (N.to_nat (it_off p)) (length (it_img p)) = it_img p) its.
Proof.
  revert buf; induction its as [|p its IH]; intros buf Hl Hf Hp; [constructor|].
  inversion Hf as [|? ? [H1 H2] Hr]; subst. cbn [map pairwiseP] in Hp. destruct Hp as [Hp1 Hp2].
  assert (Hl' : length (bufset buf (N.to_nat (it_off p)) (it_img p)) = N.to_nat total)
    by (rewrite bufset_length; [exact Hl|lia]).
  constructor; [|cbn [blits]; apply IH; assumption].
  destruct (length (it_img p)) as [|k] eqn:Ek.
  { apply length_zero_iff_nil in Ek. rewrite Ek. reflexivity. }
  rewrite <- Ek.
  cbn [blits]. rewrite (blits_rd_other total); [apply rd_bufset_same; lia|exact Hl'|exact Hr|].
  rewrite Forall_map in Hp1. rewrite Forall_forall in *.
  intros q Hq. specialize (Hp1 q Hq). specialize (Hr q Hq). destruct Hr as [Hq1 Hq2].
  unfold rg_disj, it_off, it_size, it_img in *.
  destruct Hp1 as [D|[D|[D|D]]].
  - lia.
  - left. apply length_zero_iff_nil. lia.
  - right; left. lia.
  - right; right. lia.
Qed.

(* ------------------------------------------------------------------ *)
(* Field images as a list of blitted items. *)

Section Items.
Variable M : ty -> val -> option img.

Fixpoint mitems (fs : list fdef) (offs : list N) (xs : list val) {struct fs} : option (list item) :=
  match fs, offs, xs with
  | [], _, [] => Some []
  | f :: rf, o :: ro, y :: ry =>
      if is_removed f then mitems rf ro ry
      else match M (fd_ty f) y with
           | Some m => match mitems rf ro ry with Some r => Some ((o, fsize f, m) :: r) | None => None end
           | None => None
           end
  | _, _, _ => None
  end.

Lemma mflds_blits fs : forall offs xs buf,
  mflds M fs offs xs buf =
  match mitems fs offs xs with Some its => Some (blits buf its) | None => None end.
Proof.
  induction fs as [|f fs IH]; intros [|o ro] [|y ry] buf; cbn [mflds mitems]; try reflexivity.
  destruct (is_removed f); [apply IH|].
  destruct (M (fd_ty f) y) as [m|]; [|reflexivity].
  rewrite IH. destruct (mitems fs ro ry); reflexivity.
Qed.

Lemma mitems_ranges fs : forall offs xs its,
  mitems fs offs xs = Some its -> map (fun p : item => fst p) its = zip_ranges offs fs.
Proof.
  induction fs as [|f fs IH]; intros [|o ro] [|y ry] its; cbn [mitems zip_ranges]; try discriminate.
  - intros H; inversion H; reflexivity.
  - intros H; inversion H; reflexivity.
  - destruct (is_removed f); [apply IH|].
    destruct (M (fd_ty f) y) as [m|]; [|discriminate].
    destruct (mitems fs ro ry) as [r|] eqn:E; [|discriminate].
    intros H; inversion H; subst. cbn [map fst app]. f_equal. apply (IH _ _ _ E).
Qed.
End Items.

Fixpoint pairwise_b (l : list (N * N)) : bool :=
  match l with
  | [] => true
  | r :: rest =>
      forallb (fun q => (snd r =? 0) || (snd q =? 0) || (fst r + snd r <=? fst q) || (fst q + snd q <=? fst r)) rest
      && pairwise_b rest
  end.

Lemma ranges_ok_eq total lo rs :
  ranges_ok total lo rs =
  forallb (fun r => (lo <=? fst r) && (fst r + snd r <=? total)) rs && pairwise_b rs.
Proof. reflexivity. Qed.

Lemma pairwise_b_P l : pairwise_b l = true -> pairwiseP l.
Proof.
  induction l as [|r l IH]; cbn [pairwise_b pairwiseP]; [trivial|].
  intros H. apply andb_true_iff in H as [H1 H2]. split; [|apply IH; exact H2].
  rewrite forallb_forall in H1. apply Forall_forall. intros q Hq. specialize (H1 q Hq).
  unfold rg_disj. rewrite !orb_true_iff, !N.eqb_eq, !N.leb_le in H1. tauto.
Qed.

Lemma ranges_ok_P total lo rs :
  ranges_ok total lo rs = true ->
  Forall (fun r => lo <= fst r /\ fst r + snd r <= total) rs /\ pairwiseP rs.
Proof.
  rewrite ranges_ok_eq. intros H. apply andb_true_iff in H as [H1 H2].
  split; [|apply pairwise_b_P; exact H2].
  rewrite forallb_forall in H1. apply Forall_forall. intros r Hr. specialize (H1 r Hr).
  rewrite andb_true_iff, !N.leb_le in H1. exact H1.
Qed.

Lemma items_inb M total lo fs offs xs its :
  mitems M fs offs xs = Some its ->
  Forall (fun p => (length (it_img p) <= N.to_nat (it_size p))%nat) its ->
  ranges_ok total lo (zip_ranges offs fs) = true ->
  Forall (it_inb total) its /\ pairwiseP (map (fun p : item => fst p) its)
  /\ Forall (fun p => lo <= it_off p) its.
Proof.
  intros Hi Hl Hr. apply ranges_ok_P in Hr as [Hr1 Hr2].
  rewrite <- (mitems_ranges M _ _ _ _ Hi) in Hr1, Hr2.
  split; [|split; [exact Hr2|]].
  - rewrite Forall_map in Hr1. rewrite Forall_forall in *. intros p Hp.
    split; [apply Hl; exact Hp|]. apply (Hr1 p Hp).
  - rewrite Forall_map in Hr1. rewrite Forall_forall in *. intros p Hp. apply (Hr1 p Hp).
Qed.

Lemma nth_error_combine {A B} (la : list A) (lb : list B) i a b :
  nth_error la i = Some a -> nth_error lb i = Some b -> In (a, b) (combine la lb).
Proof.
  revert lb i; induction la as [|a0 la IH]; intros [|b0 lb] [|i]; cbn [nth_error combine]; try discriminate.
  - intros H1 H2; inversion H1; inversion H2; subst. left; reflexivity.
  - intros H1 H2. right. apply (IH _ _ H1 H2).
Qed.

Lemma nth_error_same_length {A B} (la : list A) (lb : list B) i a :
  length lb = length la -> nth_error la i = Some a -> exists b, nth_error lb i = Some b.
Proof.
  intros Hl Ha. destruct (nth_error lb i) as [b|] eqn:E; [eauto|].
  apply nth_error_None in E. assert (i < length la)%nat by (apply nth_error_Some; congruence). lia.
Qed.

(* ------------------------------------------------------------------ *)
(* Shape of memory images: defined on well-typed values, never longer than size_of,
   exactly size_of for packed types. *)

Definition SHAPE (t : ty) : Prop :=
  forall x, wf_layout t = true -> has_ty t x = true ->
  exists m, mem t x = Some m /\ (length m <= N.to_nat (size_of t))%nat
            /\ (forall v, packed v t = true -> length m = N.to_nat (size_of t)).

Lemma concat_shape (Mm : val -> option img) (s : nat) (pk : Prop) l :
  (forall y, In y l -> exists m, Mm y = Some m /\ (length m <= s)%nat /\ (pk -> length m = s)) ->
  exists m, concat_opt (map Mm l) = Some m /\ (length m <= length l * s)%nat
            /\ (pk -> length m = (length l * s)%nat).
Proof.
  induction l as [|y l IH]; intros H.
  - exists []. cbn. repeat split; lia.
  - destruct (H y (or_introl eq_refl)) as (m & Hm & Hle & Heq).
    destruct IH as (r & Hr & Hrle & Hreq); [intros; apply H; right; assumption|].
    exists (m ++ r). cbn [map concat_opt]. rewrite Hm, Hr. rewrite app_length. cbn [length].
    repeat split; [lia|]. intros Hp. specialize (Heq Hp). specialize (Hreq Hp). lia.
Qed.

Lemma mitems_shape fs :
  Pfs SHAPE fs -> forallb (fun f => wf_layout (fd_ty f)) fs = true ->
  forall offs xs, length offs = length fs -> hflds has_ty fs xs = true ->
  exists its, mitems mem fs offs xs = Some its
              /\ Forall (fun p => (length (it_img p) <= N.to_nat (it_size p))%nat) its.
Proof.
  induction 1 as [|f fs Hf _ IH]; intros Hwl [|o ro] [|y ry] Hlen Hh;
    cbn [hflds length] in Hh, Hlen; try discriminate.
  - exists []. split; [reflexivity|constructor].
  - cbn [forallb] in Hwl. apply andb_true_iff in Hwl as [Hw1 Hw2].
    apply andb_true_iff in Hh as [Hh1 Hh2].
    destruct (IH Hw2 ro ry) as (its & Hi & Hl); [lia|exact Hh2|].
    cbn [mitems]. unfold hf in Hh1. destruct (is_removed f) eqn:Er.
    + exists its. split; assumption.
    + apply andb_true_iff in Hh1 as [Hh1 _].
      destruct (Hf y Hw1 Hh1) as (m & Hm & Hle & _). rewrite Hm, Hi.
      eexists. split; [reflexivity|]. constructor; [|exact Hl].
      unfold it_img, it_size, fsize. cbn [fst snd]. rewrite Er. exact Hle.
Qed.

Lemma mflds_shape fs total lo :
  Pfs SHAPE fs -> forallb (fun f => wf_layout (fd_ty f)) fs = true ->
  forall offs xs buf, length offs = length fs -> hflds has_ty fs xs = true ->
  ranges_ok total lo (zip_ranges offs fs) = true -> length buf = N.to_nat total ->
  exists its, mitems mem fs offs xs = Some its /\ mflds mem fs offs xs buf = Some (blits buf its)
              /\ length (blits buf its) = N.to_nat total
              /\ Forall (it_inb total) its /\ pairwiseP (map (fun p : item => fst p) its).
Proof.
  intros HP Hwl offs xs buf Hlen Hh Hr Hb.
  destruct (mitems_shape fs HP Hwl offs xs Hlen Hh) as (its & Hi & Hl).
  destruct (items_inb _ _ _ _ _ _ _ Hi Hl Hr) as (Hinb & Hpw & _).
  exists its. rewrite mflds_blits, Hi. repeat split; try assumption.
  apply blits_length; assumption.
Qed.

Lemma mtup_shape ts :
  Forall SHAPE ts -> forallb wf_layout ts = true ->
  forall offs xs buf total, length offs = length ts -> htup has_ty ts xs = true ->
  length buf = N.to_nat total ->
  forallb (fun r => (0 <=? fst r) && (fst r + snd r <=? total)) (combine offs (map size_of ts)) = true ->
  exists m, mtup mem ts offs xs buf = Some m /\ length m = N.to_nat total.
Proof.
  induction 1 as [|t ts Ht _ IH]; intros Hwl [|o ro] [|y ry] buf total Hlen Hh Hb Hr;
    cbn [htup length] in Hh, Hlen; try discriminate.
  - exists buf. split; [reflexivity|exact Hb].
  - cbn [forallb] in Hwl. apply andb_true_iff in Hwl as [Hw1 Hw2].
    apply andb_true_iff in Hh as [Hh1 Hh2].
    cbn [map combine forallb fst snd] in Hr. apply andb_true_iff in Hr as [Hr1 Hr2].
    apply andb_true_iff in Hr1 as [_ Hr1]. apply N.leb_le in Hr1.
    destruct (Ht y Hw1 Hh1) as (m & Hm & Hle & _).
    cbn [mtup]. rewrite Hm. apply (IH Hw2 ro ry _ total); try assumption; [lia|].
    rewrite bufset_length; [exact Hb|lia].
Qed.

Lemma shape_all t : SHAPE t.
Proof.
  induction t using ty_ind'; intros x Hwl Hh.
  - (* TInt *) destruct x; try discriminate. rewrite mem_TInt. eexists. split; [reflexivity|].
    rewrite somes_length, le_length. cbn [size_of]. rewrite Nat2N.id. split; [lia|reflexivity].
  - destruct x; try discriminate. rewrite mem_TBool. eexists. split; [reflexivity|]. split; [cbn; lia|reflexivity].
  - destruct x; try discriminate. rewrite mem_TChar. eexists. split; [reflexivity|].
    rewrite somes_length, le_length. split; [cbn; lia|reflexivity].
  - destruct x; try discriminate. rewrite mem_TF32. eexists. split; [reflexivity|].
    rewrite somes_length, le_length. split; [cbn; lia|reflexivity].
  - destruct x; try discriminate. rewrite mem_TF64. eexists. split; [reflexivity|].
    rewrite somes_length, le_length. split; [cbn; lia|reflexivity].
  - destruct x; try discriminate. exists []. split; [reflexivity|]. split; [cbn; lia|reflexivity].
  - rewrite mem_TString. exists []. split; [reflexivity|]. split; [cbn; lia|discriminate].
  - rewrite mem_TVec. exists []. split; [reflexivity|]. split; [cbn; lia|discriminate].
  - rewrite mem_TSeq. exists []. split; [reflexivity|]. split; [cbn; lia|discriminate].
  - (* TArray *)
    destruct x; try discriminate. rewrite has_ty_TArray in Hh.
    apply andb_true_iff in Hh as [H1 H2]. apply N.eqb_eq in H1. rewrite forallb_forall in H2.
    change (wf_layout (TArray t n)) with (wf_layout t) in Hwl.
    destruct (concat_shape (mem t) (N.to_nat (size_of t)) (exists v, packed v t = true) l) as (m & Hm & Hle & Heq).
    { intros y Hy. destruct (IHt y Hwl (H2 y Hy)) as (m & Hm & Hle & Heq).
      exists m. repeat split; try assumption. intros [v Hv]. apply (Heq v Hv). }
    rewrite mem_TArray. exists m. split; [exact Hm|].
    cbn [size_of]. rewrite N2Nat.inj_mul, <- H1, Nat2N.id. split; [exact Hle|].
    intros v Hv. apply Heq. exists v. exact Hv.
  - rewrite mem_TOption. exists []. split; [reflexivity|]. split; [cbn; lia|discriminate].
  - rewrite mem_TResult. exists []. split; [reflexivity|]. split; [cbn; lia|discriminate].
  - rewrite mem_TBox. exists []. split; [reflexivity|]. split; [cbn; lia|discriminate].
  - (* TCell *)
    rewrite has_ty_TCell in Hh. change (wf_layout (TCell t)) with (wf_layout t) in Hwl.
    rewrite mem_TCell. apply (IHt x Hwl Hh).
  - (* TTuple *)
    destruct x; try discriminate. rewrite has_ty_TTuple in Hh. rewrite wf_layout_TTuple in Hwl.
    apply andb_true_iff in Hwl as [Hwl Hr]. apply andb_true_iff in Hwl as [Hwl Hlen].
    apply Nat.eqb_eq in Hlen. rewrite ranges_ok_eq in Hr. apply andb_true_iff in Hr as [Hr _].
    destruct (mtup_shape ts H Hwl (l_offs l) l0 (repeat None (N.to_nat (l_size l))) (l_size l) Hlen Hh
                (repeat_length _ _) Hr) as (m & Hm & Hl).
    rewrite mem_TTuple. exists m. split; [exact Hm|]. cbn [size_of]. split; [lia|intros; exact Hl].
  - (* TStruct *)
    destruct x; try discriminate. rewrite has_ty_TStruct in Hh. rewrite wf_layout_TStruct in Hwl.
    apply andb_true_iff in Hwl as [Hwl Hr]. apply andb_true_iff in Hwl as [Hwl Hlen].
    apply Nat.eqb_eq in Hlen.
    destruct (mflds_shape fs (l_size l) 0 H Hwl (l_offs l) l0 (repeat None (N.to_nat (l_size l))) Hlen Hh Hr
                (repeat_length _ _)) as (its & _ & Hm & Hl & _).
    rewrite mem_TStruct. eexists. split; [exact Hm|]. cbn [size_of]. split; [lia|intros; exact Hl].
  - (* TEnum *)
    destruct x; try (destruct repr; discriminate). rewrite has_ty_TEnum in Hh. rewrite wf_layout_TEnum in Hwl.
    apply andb_true_iff in Hh as [_ Hh]. rewrite pickg_nth in Hh.
    destruct (nth_error vs (N.to_nat idx)) as [vd|] eqn:Hn; [|discriminate].
    apply andb_true_iff in Hwl as [Hwl Hr]. apply andb_true_iff in Hwl as [Hwl Hlen].
    apply Nat.eqb_eq in Hlen.
    destruct (nth_error_same_length vs vo _ vd Hlen Hn) as (offs & Ho).
    rewrite forallb_forall in Hwl. specialize (Hwl vd (nth_error_In _ _ Hn)).
    unfold Pvs in H. rewrite Forall_forall in H. specialize (H vd (nth_error_In _ _ Hn)).
    destruct repr as [w|].
    + apply andb_true_iff in Hr as [Hw Hr].
      rewrite forallb_forall in Hr. specialize (Hr _ (nth_error_combine _ _ _ _ _ Ho Hn)).
      cbn [fst snd] in Hr. apply andb_true_iff in Hr as [Hl2 Hr]. apply Nat.eqb_eq in Hl2.
      assert (Hwle : w <= l_size l).
      { destruct (forallb fieldless vs); [apply N.eqb_eq in Hw; lia|apply N.leb_le in Hw; exact Hw]. }
      destruct (mflds_shape (vd_fields vd) (l_size l) w H Hwl offs l0
                  (bufset (repeat None (N.to_nat (l_size l))) 0 (somes (le (N.to_nat w) idx))) Hl2 Hh Hr)
        as (its & _ & Hm & Hl & _).
      { rewrite bufset_length; [apply repeat_length|]. rewrite somes_length, le_length, repeat_length. lia. }
      rewrite mem_TEnum_some, pick3_nth, Hn, Ho. eexists. split; [exact Hm|].
      cbn [size_of]. split; [lia|intros; exact Hl].
    + rewrite forallb_forall in Hr. specialize (Hr _ (nth_error_combine _ _ _ _ _ Ho Hn)).
      cbn [fst snd] in Hr. apply andb_true_iff in Hr as [Hl2 Hr]. apply Nat.eqb_eq in Hl2.
      destruct (mflds_shape (vd_fields vd) (l_size l) 0 H Hwl offs l0
                  (repeat None (N.to_nat (l_size l))) Hl2 Hh Hr (repeat_length _ _))
        as (its & _ & Hm & Hl & _).
      rewrite mem_TEnum_none, pick3_nth, Hn, Ho. eexists. split; [exact Hm|].
      cbn [size_of]. split; [lia|intros; exact Hl].
Qed.

(* 1. the image of a packed type has exactly size_of bytes *)
Theorem mem_length_packed : forall v t x m, packed v t = true -> wf_layout t = true -> no_mixed_enum t = true ->
  has_ty t x = true -> mem t x = Some m -> length m = N.to_nat (size_of t).
Proof.
  intros v t x m Hp Hwl _ Hh Hm. destruct (shape_all t x Hwl Hh) as (m' & Hm' & _ & Heq).
  rewrite Hm in Hm'. inversion Hm'; subst. apply (Heq v Hp).
Qed.

Lemma mem_total t x : wf_layout t = true -> has_ty t x = true -> exists m, mem t x = Some m.
Proof. intros Hwl Hh. destruct (shape_all t x Hwl Hh) as (m & Hm & _). eauto. Qed.

(* ------------------------------------------------------------------ *)
(* What the packed decision says about the fields of an aggregate. *)

Definition fld_ok (v : N) (f : fdef) : Prop :=
  (is_removed f = true -> present v f = false) /\
  (is_removed f = false -> present v f = true /\ fd_kind f = FNormal /\ packed v (fd_ty f) = true).

Lemma existsb_false {A} (p : A -> bool) l : existsb p l = false -> forall x, In x l -> p x = false.
Proof.
  intros H x Hx. destruct (p x) eqn:E; [|reflexivity].
  assert (existsb p l = true) by (apply existsb_exists; eauto). congruence.
Qed.

Lemma smin_le fs v :
  smin fs <= v -> forall f, In f fs -> full_range f = false -> min_safe_of (fd_from f) (fd_to f) <= v.
Proof.
  unfold smin. induction fs as [|g fs IH]; intros H f Hin Hfr; [destruct Hin|].
  destruct Hin as [->|Hf]; cbn [fold_right] in H.
  - rewrite Hfr in H. lia.
  - apply IH; [|exact Hf|exact Hfr]. destruct (full_range g); lia.
Qed.

Lemma emin_f_fold fs acc v :
  fold_right emin_f acc fs <= v ->
  acc <= v /\ forall f, In f fs -> min_safe_of (fd_from f) (fd_to f) <= v.
Proof.
  induction fs as [|g fs IH]; cbn [fold_right]; intros H.
  - split; [exact H|intros f []].
  - unfold emin_f in H at 1. destruct IH as [Ha Hf]; [lia|].
    split; [exact Ha|]. intros f [->|Hin]; [lia|apply Hf; exact Hin].
Qed.

Lemma emin_le vs v :
  emin vs <= v -> forall vd, In vd vs -> forall f, In f (vd_fields vd) ->
  min_safe_of (fd_from f) (fd_to f) <= v.
Proof.
  unfold emin. induction vs as [|wd vs IH]; intros H vd Hin0 f Hf; [destruct Hin0|].
  destruct Hin0 as [->|Hin]; cbn [fold_right] in H; apply emin_f_fold in H as [Ha Hb].
  - apply Hb; exact Hf.
  - apply (IH Ha vd Hin f Hf).
Qed.

Lemma fld_ok_intro v f :
  wf_fd f = true -> is_ignored f = false ->
  (full_range f = false -> min_safe_of (fd_from f) (fd_to f) <= v) ->
  (is_removed f = false -> packed v (fd_ty f) = true) ->
  fld_ok v f.
Proof.
  unfold wf_fd, fld_ok, is_ignored, is_removed, present, in_range, full_range, min_safe_of.
  intros Hw Hi Hm Hp. apply andb_true_iff in Hw as [Hw Hk]. apply andb_true_iff in Hw as [_ Hr].
  destruct (fd_kind f); destruct (fd_to f) as [hi|]; try discriminate.
  - (* FNormal, open *)
    split; [discriminate|]. intros _. split; [|split; [reflexivity|apply Hp; reflexivity]].
    rewrite andb_true_r in *. apply N.leb_le.
    destruct (N.eqb_spec (fd_from f) 0) as [E|NE]; [lia|]. specialize (Hm eq_refl). lia.
  - (* FRemoved, closed *)
    split; [|discriminate]. intros _. rewrite andb_false_r in Hm. specialize (Hm eq_refl).
    apply andb_false_iff. right. apply N.leb_gt. lia.
  - (* FAbiRemoved, closed *)
    split; [|discriminate]. intros _. rewrite andb_false_r in Hm. specialize (Hm eq_refl).
    apply andb_false_iff. right. apply N.leb_gt. lia.
Qed.

Lemma struct_fld_ok v l fs :
  packed v (TStruct l fs) = true -> wf_ty (TStruct l fs) = true -> Forall (fld_ok v) fs.
Proof.
  rewrite packed_TStruct, wf_ty_TStruct. intros Hp Hw.
  apply andb_true_iff in Hp as [Hp H5]. apply andb_true_iff in Hp as [Hp H4].
  apply andb_true_iff in Hp as [Hp _]. apply andb_true_iff in Hp as [H1 H2].
  apply negb_true_iff in H1, H2. apply N.leb_le in H4.
  rewrite forallb_forall in H5, Hw. apply Forall_forall. intros f Hf.
  apply fld_ok_intro.
  - apply Hw; exact Hf.
  - apply (existsb_false _ _ H1 f Hf).
  - apply (smin_le fs v H4 f Hf).
  - intros Er. specialize (H5 f Hf). unfold sfield_pk in H5. rewrite Er in H5. exact H5.
Qed.

Lemma enum_fld_ok v w l vo vs :
  packed v (TEnum (Some w) l vo vs) = true -> wf_ty (TEnum (Some w) l vo vs) = true ->
  forall vd, In vd vs -> Forall (fld_ok v) (vd_fields vd).
Proof.
  rewrite packed_TEnum_some, wf_ty_TEnum. intros Hp Hw vd Hvd.
  apply andb_true_iff in Hp as [Hp H5]. apply andb_true_iff in Hp as [Hp H4].
  apply andb_true_iff in Hp as [Hp _]. apply andb_true_iff in Hp as [_ H2].
  apply negb_true_iff in H2. apply N.leb_le in H4.
  apply andb_true_iff in Hw as [_ Hw].
  rewrite forallb_forall in H5, Hw. specialize (H5 vd Hvd). specialize (Hw vd Hvd).
  apply andb_true_iff in Hw as [Hw _].
  pose proof (existsb_false _ _ H2 vd Hvd) as H2'. cbv beta in H2'.
  rewrite forallb_forall in H5, Hw. apply Forall_forall. intros f Hf.
  apply fld_ok_intro.
  - apply Hw; exact Hf.
  - apply (existsb_false _ _ H2' f Hf).
  - intros _. apply (emin_le vs v H4 vd Hvd f Hf).
  - intros Er. specialize (H5 f Hf). unfold efield_pk in H5. rewrite Er in H5. exact H5.
Qed.

(* 3. the version gate. As stated (without wf_ty) it is false: a Removed field with an open
   version range is present at every v >= from. *)
Lemma packed_version_gate_counterexample :
  let f := FD TUnit 1 None FRemoved VUnit in
  packed 1 (TStruct (Lay 0 1 [0] false) [f]) = true /\ In f [f]
  /\ is_removed f = true /\ present 1 f = true.
Proof. repeat split; try (vm_compute; reflexivity). left; reflexivity. Qed.

Lemma packed_version_gate_unrestricted_false :
  ~ (forall v l fs, packed v (TStruct l fs) = true ->
     forall f, In f fs -> (is_removed f = true -> present v f = false) /\ (is_removed f = false -> present v f = true)).
Proof.
  intros H. destruct packed_version_gate_counterexample as (Hp & Hin & Hr & Hpr).
  destruct (H _ _ _ Hp _ Hin) as [H1 _]. specialize (H1 Hr). congruence.
Qed.

Theorem packed_version_gate : forall v l fs, packed v (TStruct l fs) = true -> wf_ty (TStruct l fs) = true ->
  forall f, In f fs -> (is_removed f = true -> present v f = false) /\ (is_removed f = false -> present v f = true).
Proof.
  intros v l fs Hp Hw f Hf. pose proof (struct_fld_ok v l fs Hp Hw) as H.
  rewrite Forall_forall in H. destruct (H f Hf) as [H1 H2]. split; [exact H1|].
  intros Er. apply (H2 Er).
Qed.

(* ------------------------------------------------------------------ *)
(* 2. Soundness of the Packed decision. *)

(* Extra layout guarantee needed (see packed_sound_counterexample_empty_struct): a struct without
   fields is zero-sized. *)
Fixpoint empty_struct_zst (t : ty) : bool :=
  let okf := fun f : fdef => empty_struct_zst (fd_ty f) in
  match t with
  | TVec t | TSeq t | TOption t | TBox t | TCell t | TArray t _ => empty_struct_zst t
  | TResult a b => empty_struct_zst a && empty_struct_zst b
  | TTuple _ ts => forallb empty_struct_zst ts
  | TStruct l fs => forallb okf fs && match fs with [] => l_size l =? 0 | _ => true end
  | TEnum _ _ _ vs => forallb (fun vd : vdef => forallb okf (vd_fields vd)) vs
  | _ => true
  end.

Lemma zst_TTuple l ts : empty_struct_zst (TTuple l ts) = forallb empty_struct_zst ts.
Proof. reflexivity. Qed.
Lemma zst_TStruct l fs :
  empty_struct_zst (TStruct l fs) =
  forallb (fun f => empty_struct_zst (fd_ty f)) fs && match fs with [] => l_size l =? 0 | _ => true end.
Proof. reflexivity. Qed.
Lemma zst_TEnum repr l vo vs :
  empty_struct_zst (TEnum repr l vo vs) =
  forallb (fun vd : vdef => forallb (fun f => empty_struct_zst (fd_ty f)) (vd_fields vd)) vs.
Proof. reflexivity. Qed.

Definition SND (v : N) (t : ty) : Prop :=
  forall x b, packed v t = true -> wf_ty t = true -> empty_struct_zst t = true ->
  wf_layout t = true -> no_mixed_enum t = true ->
  has_ty t x = true -> enc v t x = Ok b -> mem t x = Some (somes b).

Lemma concat_map_sound {X} (E : X -> res bytes) (Mm : X -> option img) l :
  (forall y, In y l -> forall b, E y = Ok b -> Mm y = Some (somes b)) ->
  forall B, concat_res (map E l) = Ok B -> concat_opt (map Mm l) = Some (somes B).
Proof.
  induction l as [|y l IH]; intros H B HB; cbn [map concat_res concat_opt] in *.
  - inversion HB; reflexivity.
  - apply bind_ok in HB as (a & Ha & HB). apply bind_ok in HB as (r & Hr & HB). inversion HB; subst.
    rewrite (H y (or_introl eq_refl) a Ha). rewrite (IH (fun z Hz => H z (or_intror Hz)) r Hr).
    rewrite somes_app. reflexivity.
Qed.

Lemma bufset_tile0 k m :
  (length m <= k)%nat -> bufset (repeat None k) 0 m = m ++ repeat None (k - length m).
Proof. intros H. exact (bufset_tile [] k m H). Qed.

Lemma variant_chain_le total : forall offs sizes p,
  variant_chain total p offs sizes = true -> p <= total.
Proof.
  induction offs as [|o offs IH]; intros [|s sizes] p H; cbn [variant_chain] in H; try discriminate.
  - apply N.eqb_eq in H. lia.
  - apply andb_true_iff in H as [H1 H2]. apply N.eqb_eq in H1. subst o. apply IH in H2. lia.
Qed.

Lemma variant_chain_ends total : forall offs sizes p o ro s rs,
  offs = o :: ro -> sizes = s :: rs ->
  variant_chain total p offs sizes = true -> o = p /\ last offs 0 + last sizes 0 = total.
Proof.
  induction offs as [|o' offs IH]; intros sizes p o ro s rs Eo Es H; [discriminate|].
  inversion Eo; subst. cbn [variant_chain] in H. apply andb_true_iff in H as [H1 H2].
  apply N.eqb_eq in H1. split; [exact H1|].
  destruct ro as [|o2 ro]; destruct rs as [|s2 rs]; cbn [variant_chain] in H2; try discriminate.
  - apply N.eqb_eq in H2. cbn [last]. exact H2.
  - destruct (IH (s2 :: rs) (o + s) o2 ro s2 rs eq_refl eq_refl H2) as [_ HL].
    change (last (o :: o2 :: ro) 0) with (last (o2 :: ro) 0).
    change (last (s :: s2 :: rs) 0) with (last (s2 :: rs) 0). exact HL.
Qed.

Lemma chain_variant total : forall ro o sizes,
  chain_ok (o :: ro) sizes = true -> length (o :: ro) = length sizes ->
  last (o :: ro) 0 + last sizes 0 = total -> variant_chain total o (o :: ro) sizes = true.
Proof.
  induction ro as [|o2 ro IH]; intros o [|s [|s2 rs]] Hc Hl HL; cbn [length] in Hl; try discriminate.
  - cbn [last] in HL. cbn [variant_chain]. rewrite N.eqb_refl. apply N.eqb_eq. exact HL.
  - cbn [chain_ok] in Hc. apply andb_true_iff in Hc as [H1 H2]. apply N.eqb_eq in H1.
    change (last (o :: o2 :: ro) 0) with (last (o2 :: ro) 0) in HL.
    change (last (s :: s2 :: rs) 0) with (last (s2 :: rs) 0) in HL.
    cbn [variant_chain]. rewrite N.eqb_refl. rewrite H1. cbn [andb].
    apply (IH o2 (s2 :: rs)); [exact H2|cbn [length] in *; lia|exact HL].
Qed.

Lemma struct_chain_variant total o ro sizes :
  struct_chain total (o :: ro) sizes = true ->
  variant_chain total 0 (o :: ro) sizes = true /\ o = 0.
Proof.
  unfold struct_chain. intros H. apply andb_true_iff in H as [H H4]. apply andb_true_iff in H as [H H3].
  apply andb_true_iff in H as [H1 H2]. apply N.eqb_eq in H2, H3. apply Nat.eqb_eq in H4.
  split; [|exact H2]. subst o. apply chain_variant; assumption.
Qed.

Lemma vchains_nth total w : forall vo vs i offs vd,
  vchains total w vo vs = true -> nth_error vo i = Some offs -> nth_error vs i = Some vd ->
  vd_fields vd = [] \/ variant_chain total w offs (map fsize (vd_fields vd)) = true.
Proof.
  induction vo as [|o vo IH]; intros [|wd vs] [|i] offs vd H Ho Hv; cbn [nth_error vchains] in *; try discriminate.
  - inversion Ho; inversion Hv; subst. apply andb_true_iff in H as [H _].
    destruct (vd_fields vd); [left; reflexivity|right; exact H].
  - apply andb_true_iff in H as [_ H]. apply (IH _ _ _ _ H Ho Hv).
Qed.

Lemma flds_tile v total fs :
  Pfs (SND v) fs -> Forall (fld_ok v) fs ->
  forallb wf_fd fs = true -> forallb (fun f => empty_struct_zst (fd_ty f)) fs = true ->
  forallb (fun f => wf_layout (fd_ty f)) fs = true -> forallb (fun f => no_mixed_enum (fd_ty f)) fs = true ->
  forall offs xs pre pos B,
  hflds has_ty fs xs = true -> eflds v (enc v) fs xs = Ok B ->
  variant_chain total pos offs (map fsize fs) = true -> length pre = N.to_nat pos ->
  mflds mem fs offs xs (pre ++ repeat None (N.to_nat total - N.to_nat pos)) = Some (pre ++ somes B).
Proof.
  induction fs as [|f fs IH]; intros HP HF Hwt Hz Hwl Hnm offs xs pre pos B Hh He Hc Hlen.
  - destruct xs; cbn [hflds] in Hh; try discriminate. cbn [eflds] in He. inversion He; subst.
    destruct offs; cbn [map variant_chain] in Hc; try discriminate. apply N.eqb_eq in Hc. subst.
    cbn [mflds]. rewrite Nat.sub_diag. reflexivity.
  - destruct xs as [|y ry]; cbn [hflds] in Hh; try discriminate.
    destruct offs as [|o ro]; cbn [map variant_chain] in Hc; try discriminate.
    inversion HP as [|? ? HP1 HP2]; subst. inversion HF as [|? ? [HF1 HF2] HF3]; subst.
    cbn [forallb] in Hwt, Hz, Hwl, Hnm.
    apply andb_true_iff in Hwt as [Hwt1 Hwt2]. apply andb_true_iff in Hz as [Hz1 Hz2].
    apply andb_true_iff in Hwl as [Hwl1 Hwl2]. apply andb_true_iff in Hnm as [Hnm1 Hnm2].
    apply andb_true_iff in Hh as [Hh1 Hh2]. apply andb_true_iff in Hc as [Hc1 Hc2].
    apply N.eqb_eq in Hc1. subst o.
    cbn [eflds] in He. apply bind_ok in He as (a & Ha & He). apply bind_ok in He as (B' & HB' & He).
    inversion He; subst B. pose proof (variant_chain_le _ _ _ _ Hc2) as Hle.
    cbn [mflds]. unfold hf in Hh1. unfold efield in Ha. unfold fsize in Hc2, Hle.
    destruct (is_removed f) eqn:Er.
    + rewrite (HF1 eq_refl) in Ha. unfold is_removed in Er.
      assert (a = []) by (destruct (fd_kind f); try discriminate; inversion Ha; reflexivity). subst a.
      cbn [app]. replace (N.to_nat total - N.to_nat pos)%nat with (N.to_nat total - N.to_nat (pos + 0))%nat by lia.
      apply IH; try assumption. lia.
    + destruct (HF2 eq_refl) as (Hpr & Hk & Hpk). rewrite Hk, Hpr in Ha.
      apply andb_true_iff in Hh1 as [Hh1 _].
      assert (Hwt' : wf_ty (fd_ty f) = true).
      { unfold wf_fd in Hwt1. apply andb_true_iff in Hwt1 as [Hwt1 _]. apply andb_true_iff in Hwt1 as [Hwt1 _]. exact Hwt1. }
      pose proof (HP1 y a Hpk Hwt' Hz1 Hwl1 Hnm1 Hh1 Ha) as Hm.
      pose proof (mem_length_packed v _ _ _ Hpk Hwl1 Hnm1 Hh1 Hm) as Hlm.
      rewrite Hm.
      assert (Hb : bufset (pre ++ repeat None (N.to_nat total - N.to_nat pos)) (N.to_nat pos) (somes a)
                   = (pre ++ somes a) ++ repeat None (N.to_nat total - N.to_nat (pos + size_of (fd_ty f)))).
      { rewrite <- Hlen. rewrite bufset_tile by lia. do 2 f_equal. lia. }
      rewrite Hb.
      rewrite (IH HP2 HF3 Hwt2 Hz2 Hwl2 Hnm2 ro ry (pre ++ somes a) (pos + size_of (fd_ty f)) B' Hh2 HB' Hc2).
      * rewrite somes_app, app_assoc. reflexivity.
      * rewrite app_length. lia.
Qed.

(* tuples: offsets pinned except for zero-sized members *)
Fixpoint ttile (total pos : N) (offs sizes : list N) : Prop :=
  match offs, sizes with
  | [], [] => pos = total
  | o :: ro, s :: rs => (s = 0 \/ o = pos) /\ ttile total (pos + s) ro rs
  | _, _ => False
  end.

Lemma ttile_le total : forall offs sizes pos, ttile total pos offs sizes -> pos <= total.
Proof.
  induction offs as [|o offs IH]; intros [|s sizes] pos H; cbn [ttile] in H; try contradiction.
  - lia.
  - destruct H as [_ H]. apply IH in H. lia.
Qed.

Lemma mtup_tile v total ts :
  Forall (SND v) ts -> forallb (packed v) ts = true ->
  forallb wf_ty ts = true -> forallb empty_struct_zst ts = true ->
  forallb wf_layout ts = true -> forallb no_mixed_enum ts = true ->
  forall offs xs pre pos B,
  htup has_ty ts xs = true -> etup (enc v) ts xs = Ok B ->
  ttile total pos offs (map size_of ts) -> length pre = N.to_nat pos ->
  mtup mem ts offs xs (pre ++ repeat None (N.to_nat total - N.to_nat pos)) = Some (pre ++ somes B).
Proof.
  induction ts as [|t ts IH]; intros HP Hpk Hwt Hz Hwl Hnm offs xs pre pos B Hh He Hc Hlen.
  - destruct xs; cbn [htup] in Hh; try discriminate. cbn [etup] in He. inversion He; subst.
    destruct offs; cbn [map ttile] in Hc; try contradiction. subst.
    cbn [mtup]. rewrite Nat.sub_diag. reflexivity.
  - destruct xs as [|y ry]; cbn [htup] in Hh; try discriminate.
    destruct offs as [|o ro]; cbn [map ttile] in Hc; try contradiction.
    inversion HP as [|? ? HP1 HP2]; subst.
    cbn [forallb] in Hpk, Hwt, Hz, Hwl, Hnm.
    apply andb_true_iff in Hpk as [Hpk1 Hpk2].
    apply andb_true_iff in Hwt as [Hwt1 Hwt2]. apply andb_true_iff in Hz as [Hz1 Hz2].
    apply andb_true_iff in Hwl as [Hwl1 Hwl2]. apply andb_true_iff in Hnm as [Hnm1 Hnm2].
    apply andb_true_iff in Hh as [Hh1 Hh2]. destruct Hc as [Hc1 Hc2].
    cbn [etup] in He. apply bind_ok in He as (a & Ha & He). apply bind_ok in He as (B' & HB' & He).
    inversion He; subst B. pose proof (ttile_le _ _ _ _ Hc2) as Hle.
    pose proof (HP1 y a Hpk1 Hwt1 Hz1 Hwl1 Hnm1 Hh1 Ha) as Hm.
    pose proof (mem_length_packed v _ _ _ Hpk1 Hwl1 Hnm1 Hh1 Hm) as Hlm.
    cbn [mtup]. rewrite Hm.
    assert (Hb : bufset (pre ++ repeat None (N.to_nat total - N.to_nat pos)) (N.to_nat o) (somes a)
                 = (pre ++ somes a) ++ repeat None (N.to_nat total - N.to_nat (pos + size_of t))).
    { destruct Hc1 as [E|E].
      - assert (Ea : somes a = []) by (apply length_zero_iff_nil; lia).
        rewrite Ea, bufset_nil, app_nil_r. do 2 f_equal. lia.
      - subst o. rewrite <- Hlen. rewrite bufset_tile by lia. do 2 f_equal. lia. }
    rewrite Hb.
    rewrite (IH HP2 Hpk2 Hwt2 Hz2 Hwl2 Hnm2 ro ry (pre ++ somes a) (pos + size_of t) B' Hh2 HB' Hc2).
    + rewrite somes_app, app_assoc. reflexivity.
    + rewrite app_length. lia.
Qed.

Lemma packed_TTuple v l ts :
  packed v (TTuple l ts) =
  match ts, l_offs l with
  | [t1], [o0] => (o0 =? 0) && (size_of t1 =? l_size l) && packed v t1
  | [t1; t2], o0 :: _ => (o0 =? 0) && (size_of t1 + size_of t2 =? l_size l) && packed v t1 && packed v t2
  | [t1; t2; t3], o0 :: o1 :: _ =>
      (o0 =? 0) && (o1 =? size_of t1) && (size_of t1 + size_of t2 + size_of t3 =? l_size l)
      && packed v t1 && packed v t2 && packed v t3
  | [t1; t2; t3; t4], o0 :: o1 :: o2 :: _ =>
      (o0 =? 0) && (o1 =? size_of t1) && (o2 =? size_of t1 + size_of t2)
      && (size_of t1 + size_of t2 + size_of t3 + size_of t4 =? l_size l)
      && packed v t1 && packed v t2 && packed v t3 && packed v t4
  | _, _ => false
  end.
Proof. reflexivity. Qed.

Lemma disj4_P a b c d e f :
  (a =? 0) || (b =? 0) || (c <=? d) || (e <=? f) = true -> a = 0 \/ b = 0 \/ c <= d \/ e <= f.
Proof. rewrite !orb_true_iff, !N.eqb_eq, !N.leb_le. tauto. Qed.

Ltac bsplit := repeat match goal with
  | H : _ && _ = true |- _ => apply andb_true_iff in H; destruct H
  | H : (_ =? 0) || (_ =? 0) || (_ <=? _) || (_ <=? _) = true |- _ => apply disj4_P in H
  | H : (_ =? _) = true |- _ => apply N.eqb_eq in H
  | H : (_ <=? _) = true |- _ => apply N.leb_le in H
  | H : true = true |- _ => clear H
  end.

Lemma tuple_packed_tile v l ts :
  packed v (TTuple l ts) = true ->
  Nat.eqb (length (l_offs l)) (length ts) = true ->
  ranges_ok (l_size l) 0 (combine (l_offs l) (map size_of ts)) = true ->
  forallb (packed v) ts = true /\ ttile (l_size l) 0 (l_offs l) (map size_of ts).
Proof.
  rewrite packed_TTuple, ranges_ok_eq. destruct l as [sz al offs ed]. cbn [l_offs l_size].
  intros Hp Hlen Hr. apply Nat.eqb_eq in Hlen.
  destruct ts as [|t1 [|t2 [|t3 [|t4 [|t5 ts]]]]]; try discriminate;
    destruct offs as [|o0 [|o1 [|o2 [|o3 [|o4 offs]]]]]; cbn [length] in Hlen; try discriminate; try lia.
  all: cbn [combine map forallb pairwise_b fst snd] in Hr.
  all: bsplit.
  all: split; [cbn [forallb]; repeat (apply andb_true_iff; split); solve [assumption|reflexivity]|cbn [ttile map]; lia].
Qed.

Lemma snd_all v t : SND v t.
Proof.
  induction t using ty_ind'; intros x b Hp Hwt Hz Hwl Hnm Hh He.
  - destruct x; try discriminate. rewrite enc_TInt in He. inversion He; subst. apply mem_TInt.
  - destruct x; try discriminate. rewrite enc_TBool in He. inversion He; subst. reflexivity.
  - destruct x; try discriminate. rewrite enc_TChar in He. inversion He; subst. reflexivity.
  - destruct x; try discriminate. rewrite enc_TF32 in He. inversion He; subst. reflexivity.
  - destruct x; try discriminate. rewrite enc_TF64 in He. inversion He; subst. reflexivity.
  - destruct x; try discriminate. rewrite enc_TUnit in He. inversion He; subst. reflexivity.
  - discriminate.
  - discriminate.
  - discriminate.
  - (* TArray *)
    destruct x; try discriminate. rewrite has_ty_TArray in Hh.
    apply andb_true_iff in Hh as [_ H2]. rewrite forallb_forall in H2.
    rewrite enc_TArray in He. rewrite mem_TArray.
    change (wf_ty (TArray t n)) with (wf_ty t && (n <? 100000)) in Hwt.
    apply andb_true_iff in Hwt as [Hwt _].
    apply (concat_map_sound (enc v t) (mem t) l); [|exact He].
    intros y Hy b' Hb'. apply IHt; try assumption. apply H2; exact Hy.
  - discriminate.
  - discriminate.
  - discriminate.
  - (* TCell *)
    rewrite has_ty_TCell in Hh. rewrite enc_TCell in He. rewrite mem_TCell.
    apply IHt; assumption.
  - (* TTuple *)
    destruct x; try discriminate. rewrite has_ty_TTuple in Hh. rewrite enc_TTuple in He. rewrite mem_TTuple.
    rewrite wf_ty_TTuple in Hwt. rewrite zst_TTuple in Hz. rewrite wf_layout_TTuple in Hwl.
    rewrite no_mixed_TTuple in Hnm.
    apply andb_true_iff in Hwt as [Hwt _]. apply andb_true_iff in Hwt as [Hwt _].
    apply andb_true_iff in Hwl as [Hwl Hr]. apply andb_true_iff in Hwl as [Hwl Hlen].
    destruct (tuple_packed_tile v l ts Hp Hlen Hr) as [Hpk Htile].
    pose proof (mtup_tile v (l_size l) ts H Hpk Hwt Hz Hwl Hnm (l_offs l) l0 [] 0 b Hh He Htile eq_refl) as HT.
    cbn [app] in HT. change (N.to_nat 0) with 0%nat in HT. rewrite Nat.sub_0_r in HT. exact HT.
  - (* TStruct *)
    destruct x; try discriminate. rewrite has_ty_TStruct in Hh. rewrite enc_TStruct in He. rewrite mem_TStruct.
    pose proof (struct_fld_ok v l fs Hp Hwt) as HF.
    rewrite packed_TStruct in Hp.
    apply andb_true_iff in Hp as [Hp _]. apply andb_true_iff in Hp as [Hp _].
    apply andb_true_iff in Hp as [_ Hchain].
    rewrite wf_ty_TStruct in Hwt. rewrite zst_TStruct in Hz. rewrite wf_layout_TStruct in Hwl.
    rewrite no_mixed_TStruct in Hnm.
    apply andb_true_iff in Hz as [Hz1 Hz2].
    apply andb_true_iff in Hwl as [Hwl Hr]. apply andb_true_iff in Hwl as [Hwl Hlen].
    destruct fs as [|f fs].
    + destruct l0; cbn [hflds] in Hh; try discriminate. cbn [eflds] in He. inversion He; subst.
      apply N.eqb_eq in Hz2. rewrite Hz2. reflexivity.
    + destruct (l_offs l) as [|o0 ro] eqn:Eo; [cbn in Hlen; discriminate|].
      destruct (struct_chain_variant _ _ _ _ Hchain) as [Hvc _].
      pose proof (flds_tile v (l_size l) (f :: fs) H HF Hwt Hz1 Hwl Hnm (o0 :: ro) l0 [] 0 b Hh He Hvc eq_refl) as HT.
      cbn [app] in HT. change (N.to_nat 0) with 0%nat in HT. rewrite Nat.sub_0_r in HT. exact HT.
  - (* TEnum *)
    destruct repr as [w|]; [|discriminate].
    destruct x; try discriminate. rewrite has_ty_TEnum in Hh. rewrite enc_TEnum in He.
    rewrite mem_TEnum_some.
    apply andb_true_iff in Hh as [_ Hh]. rewrite pickg_nth in Hh, He.
    destruct (nth_error vs (N.to_nat idx)) as [vd|] eqn:Hn; [|discriminate].
    pose proof (nth_error_In _ _ Hn) as Hin.
    pose proof (enum_fld_ok v w l vo vs Hp Hwt vd Hin) as HF.
    rewrite packed_TEnum_some in Hp.
    apply andb_true_iff in Hp as [Hp _]. apply andb_true_iff in Hp as [Hp _].
    apply andb_true_iff in Hp as [_ Hvc].
    rewrite wf_ty_TEnum in Hwt. apply andb_true_iff in Hwt as [_ Hwt].
    rewrite forallb_forall in Hwt. specialize (Hwt vd Hin). apply andb_true_iff in Hwt as [Hwt _].
    rewrite zst_TEnum in Hz. rewrite forallb_forall in Hz. specialize (Hz vd Hin).
    rewrite no_mixed_TEnum in Hnm. apply andb_true_iff in Hnm as [Hnm Hmix].
    rewrite forallb_forall in Hnm. specialize (Hnm vd Hin).
    rewrite wf_layout_TEnum in Hwl.
    apply andb_true_iff in Hwl as [Hwl Hr]. apply andb_true_iff in Hwl as [Hwl Hlen].
    apply Nat.eqb_eq in Hlen. apply andb_true_iff in Hr as [Hw _].
    rewrite forallb_forall in Hwl. specialize (Hwl vd Hin).
    destruct (nth_error_same_length vs vo _ vd Hlen Hn) as (offs & Ho).
    unfold Pvs in H. rewrite Forall_forall in H. specialize (H vd Hin).
    rewrite pick3_nth, Hn, Ho.
    destruct (in_range (vd_from vd) (vd_to vd) v); [|discriminate].
    apply bind_ok in He as (B & HB & He). inversion He; subst b.
    change (dwidth (Some w) (length vs)) with (N.to_nat w).
    destruct (vchains_nth _ _ _ _ _ _ _ Hvc Ho Hn) as [Hnil|Hchain].
    + (* field-less variant: every variant is field-less, the enum is its discriminant *)
      rewrite Hnil in *.
      assert (Hall : forallb fieldless vs = true).
      { destruct (forallb fieldless vs); [reflexivity|]. cbn [orb] in Hmix.
        rewrite forallb_forall in Hmix. specialize (Hmix vd Hin). unfold fieldful in Hmix.
        rewrite Hnil in Hmix. discriminate. }
      rewrite Hall in Hw. apply N.eqb_eq in Hw.
      destruct l0; cbn [hflds] in Hh; try discriminate. cbn [eflds] in HB. inversion HB; subst B.
      cbn [mflds]. rewrite Hw. rewrite bufset_tile0 by (rewrite somes_length, le_length; lia).
      rewrite somes_length, le_length, Nat.sub_diag. rewrite !app_nil_r. reflexivity.
    + pose proof (variant_chain_le _ _ _ _ Hchain) as Hle.
      rewrite bufset_tile0 by (rewrite somes_length, le_length; lia).
      rewrite somes_length, le_length.
      rewrite (flds_tile v (l_size l) (vd_fields vd) H HF Hwt Hz Hwl Hnm offs l0
                 (somes (le (N.to_nat w) idx)) w B Hh HB Hchain).
      * rewrite somes_app. reflexivity.
      * rewrite somes_length, le_length. reflexivity.
Qed.

(* Counterexamples that force the two extra premises of packed_sound. *)
Lemma packed_sound_counterexample_closed_normal :
  let t := TStruct (Lay 1 1 [0] false) [FD (TInt U8) 0 (Some 0) FNormal (VInt 0)] in
  let x := VRec [VInt 5] in
  packed 1 t = true /\ wf_layout t = true /\ no_mixed_enum t = true /\ has_ty t x = true
  /\ enc 1 t x = Ok [] /\ mem t x = Some [Some 5] /\ wf_ty t = false.
Proof. repeat split; vm_compute; reflexivity. Qed.

Lemma packed_sound_counterexample_empty_struct :
  let t := TStruct (Lay 1 1 [] false) [] in
  let x := VRec [] in
  packed 0 t = true /\ wf_layout t = true /\ no_mixed_enum t = true /\ wf_ty t = true /\ has_ty t x = true
  /\ enc 0 t x = Ok [] /\ mem t x = Some [None] /\ empty_struct_zst t = false.
Proof. repeat split; vm_compute; reflexivity. Qed.

Lemma packed_sound_unrestricted_false :
  ~ (forall v t x b, packed v t = true -> wf_layout t = true -> no_mixed_enum t = true ->
     has_ty t x = true -> enc v t x = Ok b -> mem t x = Some (somes b)).
Proof.
  intros H. destruct packed_sound_counterexample_empty_struct as (H1 & H2 & H3 & _ & H4 & H5 & H6 & _).
  specialize (H _ _ _ _ H1 H2 H3 H4 H5). rewrite H6 in H. discriminate.
Qed.

Theorem packed_sound : forall v t x b, packed v t = true -> wf_ty t = true -> empty_struct_zst t = true ->
  wf_layout t = true -> no_mixed_enum t = true ->
  has_ty t x = true -> enc v t x = Ok b -> mem t x = Some (somes b).
Proof. intros v t. apply snd_all. Qed.

(* ------------------------------------------------------------------ *)
(* 4. Transparency of the implemented serializer. *)

Definition defers (f : fdef) : bool := match deferrable f with Some _ => true | None => false end.
Definition ndefer (fs : list fdef) : nat := length (filter defers fs).

(* Extra premise of impl_enc_is_enc (see impl_enc_counterexample_tuple_region): a field of a
   struct or of an enum variant that can take part in a deferred raw region has a packed type
   (its tuple layouts are tight and in declaration order). *)
Fixpoint regions_ok (v : N) (t : ty) : bool :=
  let okf := fun f : fdef => regions_ok v (fd_ty f) && (negb (defers f) || packed v (fd_ty f)) in
  match t with
  | TVec t | TSeq t | TOption t | TBox t | TCell t | TArray t _ => regions_ok v t
  | TResult a b => regions_ok v a && regions_ok v b
  | TTuple _ ts => forallb (regions_ok v) ts
  | TStruct _ fs => forallb okf fs
  | TEnum _ _ _ vs => forallb (fun vd : vdef => forallb okf (vd_fields vd)) vs
  | _ => true
  end.

Definition rfield_ok (v : N) (f : fdef) : bool :=
  regions_ok v (fd_ty f) && (negb (defers f) || packed v (fd_ty f)).

Lemma regions_TTuple v l ts : regions_ok v (TTuple l ts) = forallb (regions_ok v) ts.
Proof. reflexivity. Qed.
Lemma regions_TStruct v l fs : regions_ok v (TStruct l fs) = forallb (rfield_ok v) fs.
Proof. reflexivity. Qed.
Lemma regions_TEnum v repr l vo vs :
  regions_ok v (TEnum repr l vo vs) = forallb (fun vd : vdef => forallb (rfield_ok v) (vd_fields vd)) vs.
Proof. reflexivity. Qed.

Definition IMPL (v : N) (t : ty) : Prop :=
  forall x b, wf_ty t = true -> empty_struct_zst t = true -> regions_ok v t = true ->
  wf_layout t = true -> no_mixed_enum t = true ->
  has_ty t x = true -> enc v t x = Ok b -> impl_enc v t x = Ok (somes b).

Definition fhyp (v : N) (f : fdef) : Prop :=
  wf_fd f = true /\ empty_struct_zst (fd_ty f) = true /\ regions_ok v (fd_ty f) = true
  /\ wf_layout (fd_ty f) = true /\ no_mixed_enum (fd_ty f) = true.

Lemma fhyp_intro v fs :
  forallb wf_fd fs = true -> forallb (fun f => empty_struct_zst (fd_ty f)) fs = true ->
  forallb (fun f => regions_ok v (fd_ty f)) fs = true ->
  forallb (fun f => wf_layout (fd_ty f)) fs = true -> forallb (fun f => no_mixed_enum (fd_ty f)) fs = true ->
  Forall (fhyp v) fs.
Proof.
  rewrite !forallb_forall. intros H1 H2 H3 H4 H5. apply Forall_forall. intros f Hf.
  unfold fhyp. auto 10.
Qed.

Lemma rfield_split v fs :
  forallb (rfield_ok v) fs = true ->
  forallb (fun f => regions_ok v (fd_ty f)) fs = true
  /\ Forall (fun f => defers f = true -> packed v (fd_ty f) = true) fs.
Proof.
  intros H. rewrite forallb_forall in H. split.
  - apply forallb_forall. intros f Hf. specialize (H f Hf). unfold rfield_ok in H.
    apply andb_true_iff in H as [H _]. exact H.
  - apply Forall_forall. intros f Hf Hd. specialize (H f Hf). unfold rfield_ok in H.
    apply andb_true_iff in H as [_ H]. rewrite Hd in H. exact H.
Qed.

Lemma defers_props f :
  defers f = true -> full_range f = true /\ is_removed f = false /\ is_ignored f = false.
Proof.
  unfold defers, deferrable.
  destruct (full_range f), (is_removed f), (is_ignored f); cbn [andb negb]; try discriminate; auto.
Qed.

Lemma ndefer_cons f fs : ndefer (f :: fs) = ((if defers f then 1 else 0) + ndefer fs)%nat.
Proof. unfold ndefer. cbn [filter]. destruct (defers f); reflexivity. Qed.

Lemma full_range_normal v f :
  wf_fd f = true -> full_range f = true -> is_ignored f = false ->
  fd_kind f = FNormal /\ present v f = true.
Proof.
  unfold wf_fd, full_range, is_ignored, present, in_range. intros Hw Hf Hi.
  apply andb_true_iff in Hw as [_ Hk]. apply andb_true_iff in Hf as [Hf0 Hft].
  apply N.eqb_eq in Hf0. rewrite Hf0.
  destruct (fd_to f); [discriminate|]. destruct (fd_kind f); try discriminate.
  split; [reflexivity|]. rewrite andb_true_r. apply N.leb_le. lia.
Qed.

Fixpoint adjb (g : list (N * N * res img)) : bool :=
  match g with
  | (sa, oa, _) :: (((sb, ob, _) :: _) as rest) => (oa + sa =? ob) && adjb rest
  | _ => true
  end.

Lemma realize_cons2 whole s0 o0 r0 p2 rest :
  realize whole ((s0, o0, r0) :: p2 :: rest) =
  if adjb ((s0, o0, r0) :: p2 :: rest) then
    match whole, last ((s0, o0, r0) :: p2 :: rest) (s0, o0, Ok []) with
    | Some m, (sl, ol, _) => Ok (slice m o0 (ol + sl))
    | None, _ => Err EOther
    end
  else concat_img (map (fun p => snd p) ((s0, o0, r0) :: p2 :: rest)).
Proof. reflexivity. Qed.

Lemma concat_img_cons r l :
  concat_img (r :: l) = let* a := r in let* b := concat_img l in Ok (a ++ b).
Proof. reflexivity. Qed.

Definition gfact (p : N * N * res img) (b : bytes) : Prop := snd p = Ok (somes b).
Definition RB (M : img) (o s : N) (b : bytes) : Prop :=
  length b = N.to_nat s /\ rd M (N.to_nat o) (N.to_nat s) = somes b.
Definition grb (M : img) (p : N * N * res img) (b : bytes) : Prop := RB M (snd (fst p)) (fst (fst p)) b.

Lemma concat_img_gfact grp bs :
  Forall2 gfact grp bs -> concat_img (map (fun p => snd p) grp) = Ok (somes (concat bs)).
Proof.
  induction 1 as [|p b grp bs Hp _ IH]; [reflexivity|].
  cbn [map concat]. rewrite concat_img_cons. unfold gfact in Hp. rewrite Hp, IH. cbn [bind].
  rewrite somes_app. reflexivity.
Qed.

Lemma concat_img_sound {X} (E : X -> res bytes) (Im : X -> res img) l :
  (forall y, In y l -> forall b, E y = Ok b -> Im y = Ok (somes b)) ->
  forall B, concat_res (map E l) = Ok B -> concat_img (map Im l) = Ok (somes B).
Proof.
  induction l as [|y l IH]; intros H B HB; cbn [map concat_res] in *.
  - inversion HB; reflexivity.
  - apply bind_ok in HB as (a & Ha & HB). apply bind_ok in HB as (r & Hr & HB). inversion HB; subst.
    rewrite concat_img_cons. rewrite (H y (or_introl eq_refl) a Ha).
    rewrite (IH (fun z Hz => H z (or_intror Hz)) r Hr). cbn [bind].
    rewrite somes_app. reflexivity.
Qed.

Lemma adj_slice M d : forall grp bs,
  Forall2 (grb M) grp bs -> adjb grp = true -> grp <> [] ->
  (N.to_nat (snd (fst (last grp d)) + fst (fst (last grp d)))
   = N.to_nat (snd (fst (hd d grp))) + length (concat bs))%nat
  /\ rd M (N.to_nat (snd (fst (hd d grp)))) (length (concat bs)) = somes (concat bs).
Proof.
  induction 1 as [|p b grp bs Hp Hrest IH]; intros Hadj Hne; [congruence|].
  destruct p as [[s o] r]. unfold grb, RB in Hp. cbn [fst snd] in Hp. destruct Hp as [Hl Hrd].
  destruct grp as [|p2 grp].
  - inversion Hrest; subst. cbn [last hd fst snd concat]. rewrite app_nil_r, Hl.
    split; [lia|exact Hrd].
  - destruct p2 as [[s2 o2] r2]. cbn [adjb] in Hadj. apply andb_true_iff in Hadj as [Ho Hadj].
    apply N.eqb_eq in Ho. destruct (IH Hadj ltac:(discriminate)) as [IH1 IH2].
    change (last ((s, o, r) :: (s2, o2, r2) :: grp) d) with (last ((s2, o2, r2) :: grp) d).
    cbn [hd fst snd] in *. cbn [concat]. rewrite app_length, somes_app, rd_split.
    rewrite Hl, Hrd. replace (N.to_nat o + N.to_nat s)%nat with (N.to_nat o2) by lia.
    rewrite IH2. split; [lia|reflexivity].
Qed.

Section FW.
Variable v : N.
Variable whole : option img.

Lemma realize_ok grp bs :
  Forall2 gfact grp bs ->
  ((exists M, whole = Some M /\ Forall2 (grb M) grp bs) \/ (length grp <= 1)%nat) ->
  realize whole grp = Ok (somes (concat bs)).
Proof.
  intros HG Hmode. destruct grp as [|[[s0 o0] r0] [|p2 rest]].
  - inversion HG; subst. reflexivity.
  - inversion HG as [|? b ? bs' Hb Hr]; subst. inversion Hr; subst.
    unfold gfact in Hb. cbn [snd] in Hb. cbn [concat]. rewrite app_nil_r. exact Hb.
  - destruct Hmode as [(M & HM & HR)|Hlen]; [|cbn [length] in Hlen; lia].
    rewrite realize_cons2. destruct (adjb ((s0, o0, r0) :: p2 :: rest)) eqn:Hadj.
    + rewrite HM.
      destruct (adj_slice M (s0, o0, Ok []) _ _ HR Hadj ltac:(discriminate)) as [H1 H2].
      destruct (last ((s0, o0, r0) :: p2 :: rest) (s0, o0, Ok [])) as [[sl ol] rl].
      cbn [hd fst snd] in H1, H2. unfold slice.
      replace (N.to_nat (ol + sl) - N.to_nat o0)%nat with (length (concat bs)) by lia.
      f_equal. exact H2.
    + apply concat_img_gfact. exact HG.
Qed.

Definition gitems (g : option (N * list (N * N * res img))) : list (N * N * res img) :=
  match g with Some (_, items) => items | None => [] end.

Fixpoint FFs (M : img) (fs : list fdef) (offs : list N) (xs : list val) : Prop :=
  match fs, offs, xs with
  | f :: rf, o :: ro, y :: ry =>
      (defers f = true -> forall b, enc v (fd_ty f) y = Ok b -> RB M o (fsize f) b)
      /\ FFs M rf ro ry
  | _, _, _ => True
  end.

Definition mode (grp : list (N * N * res img)) (bs : list bytes)
           (fs : list fdef) (offs : list N) (xs : list val) : Prop :=
  (exists M, whole = Some M /\ Forall2 (grb M) grp bs /\ FFs M fs offs xs)
  \/ (length grp + ndefer fs <= 1)%nat.

Lemma mode_flush grp bs fs offs xs :
  mode grp bs fs offs xs ->
  (exists M, whole = Some M /\ Forall2 (grb M) grp bs) \/ (length grp <= 1)%nat.
Proof. intros [(M & H1 & H2 & _)|H]; [left; eauto|right; lia]. Qed.

Lemma mode_tail_none grp bs f fs o ro y ry :
  mode grp bs (f :: fs) (o :: ro) (y :: ry) -> mode [] [] fs ro ry.
Proof.
  intros [(M & H1 & _ & H3)|H].
  - left. exists M. cbn [FFs] in H3. destruct H3 as [_ H3]. repeat split; [exact H1|constructor|exact H3].
  - right. rewrite ndefer_cons in H. cbn [length]. lia.
Qed.

Lemma mode_skip grp bs f fs o ro y ry :
  defers f = false -> mode grp bs (f :: fs) (o :: ro) (y :: ry) -> mode grp bs fs ro ry.
Proof.
  intros Hd [(M & H1 & H2 & H3)|H].
  - left. exists M. cbn [FFs] in H3. destruct H3 as [_ H3]. auto.
  - right. rewrite ndefer_cons, Hd in H. lia.
Qed.

Lemma mode_push grp bs f fs o ro y ry a r :
  defers f = true -> enc v (fd_ty f) y = Ok a ->
  mode grp bs (f :: fs) (o :: ro) (y :: ry) ->
  mode (grp ++ [(fsize f, o, r)]) (bs ++ [a]) fs ro ry.
Proof.
  intros Hd Ha [(M & H1 & H2 & H3)|H].
  - left. exists M. cbn [FFs] in H3. destruct H3 as [H3 H4]. repeat split; [exact H1| |exact H4].
    apply Forall2_app; [exact H2|]. constructor; [|constructor].
    unfold grb. cbn [fst snd]. apply (H3 Hd a Ha).
  - right. rewrite ndefer_cons, Hd in H. rewrite app_length. cbn [length]. lia.
Qed.

Lemma flush_ok grp bs fs offs xs :
  Forall2 gfact (rev (gitems grp)) bs -> mode (rev (gitems grp)) bs fs offs xs ->
  flushg whole grp = Ok (somes (concat bs)).
Proof.
  intros HG Hm. apply mode_flush in Hm. destruct grp as [[ga items]|]; cbn [gitems flushg] in *.
  - apply realize_ok; assumption.
  - inversion HG; subst. reflexivity.
Qed.

Lemma cur_ok f y a :
  IMPL v (fd_ty f) -> fhyp v f -> hf has_ty f y = true -> is_ignored f = false ->
  efield v (enc v) f y = Ok a ->
  (if present v f then
     match fd_kind f with
     | FRemoved => Panic
     | FAbiRemoved => impl_enc v (fd_ty f) (fd_default f)
     | _ => impl_enc v (fd_ty f) y
     end
   else Ok []) = Ok (somes a).
Proof.
  intros HI (Hwf & Hz & Hrg & Hwl & Hnm) Hh Hi He.
  assert (Hwt : wf_ty (fd_ty f) = true).
  { unfold wf_fd in Hwf. apply andb_true_iff in Hwf as [Hwf _]. apply andb_true_iff in Hwf as [Hwf _]. exact Hwf. }
  unfold hf, efield, is_removed, is_ignored in *.
  destruct (present v f); destruct (fd_kind f); try discriminate;
    try (inversion He; subst; reflexivity);
    apply andb_true_iff in Hh as [Hh1 Hh2].
  - apply (HI y a Hwt Hz Hrg Hwl Hnm Hh1 He).
  - apply (HI _ a Hwt Hz Hrg Hwl Hnm Hh2 He).
Qed.

Lemma fw_ok fs :
  Pfs (IMPL v) fs -> Forall (fhyp v) fs ->
  forall offs xs grp bs B,
  length offs = length fs ->
  hflds has_ty fs xs = true -> eflds v (enc v) fs xs = Ok B ->
  Forall2 gfact (rev (gitems grp)) bs ->
  mode (rev (gitems grp)) bs fs offs xs ->
  fwg v (impl_enc v) whole fs offs xs grp = Ok (somes (concat bs ++ B)).
Proof.
  induction fs as [|f fs IH]; intros HP HF offs xs grp bs B Hlen Hh He HG Hm.
  - destruct xs; cbn [hflds] in Hh; try discriminate. cbn [eflds] in He. inversion He; subst.
    cbn [fwg]. rewrite app_nil_r. apply (flush_ok grp bs [] offs []); assumption.
  - destruct xs as [|y ry]; cbn [hflds] in Hh; try discriminate.
    destruct offs as [|o ro]; cbn [length] in Hlen; try discriminate.
    inversion HP as [|? ? HP1 HP2]; subst. inversion HF as [|? ? HF1 HF2]; subst.
    apply andb_true_iff in Hh as [Hh1 Hh2].
    cbn [eflds] in He. apply bind_ok in He as (a & Ha & He). apply bind_ok in He as (B' & HB' & He).
    inversion He; subst B.
    assert (Hlen' : length ro = length fs) by lia.
    pose proof (fun g b Hg Hmo => IH HP2 HF2 ro ry g b B' Hlen' Hh2 HB' Hg Hmo) as IH'.
    assert (Hrest : fwg v (impl_enc v) whole fs ro ry None = Ok (somes B')).
    { apply (IH' None []); [constructor|]. apply (mode_tail_none _ _ _ _ _ _ _ _ Hm). }
    pose proof (flush_ok grp bs _ _ _ HG Hm) as Hflush.
    cbn [fwg]. destruct (is_ignored f) eqn:Hi.
    { (* ignored: skipped by both *)
      assert (a = []).
      { unfold efield, is_ignored in *. destruct (fd_kind f); try discriminate. inversion Ha; reflexivity. }
      subst a. cbn [app]. apply IH'; [exact HG|].
      apply (mode_skip _ _ f _ o _ y); [|exact Hm].
      destruct (defers f) eqn:Hd; [|reflexivity]. apply defers_props in Hd as (_ & _ & Hd). congruence. }
    destruct (full_range f) eqn:Hfr.
    + destruct HF1 as (Hwf & Hz & Hrg & Hwl & Hnm).
      destruct (full_range_normal v f Hwf Hfr Hi) as [Hk Hpr].
      assert (Hwt : wf_ty (fd_ty f) = true).
      { unfold wf_fd in Hwf. apply andb_true_iff in Hwf as [Hwf _]. apply andb_true_iff in Hwf as [Hwf _]. exact Hwf. }
      unfold efield in Ha. rewrite Hk, Hpr in Ha.
      unfold hf, is_removed in Hh1. rewrite Hk in Hh1. apply andb_true_iff in Hh1 as [Hh1 _].
      pose proof (HP1 y a Hwt Hz Hrg Hwl Hnm Hh1 Ha) as Hcur.
      assert (Hfl : (let* pre := flushg whole grp in let* cur := impl_enc v (fd_ty f) y in
                     let* rest := fwg v (impl_enc v) whole fs ro ry None in Ok (pre ++ cur ++ rest))
                    = Ok (somes (concat bs ++ a ++ B'))).
      { rewrite Hflush, Hcur, Hrest. cbn [bind]. rewrite !somes_app. reflexivity. }
      assert (Hpush : fwg v (impl_enc v) whole fs ro ry
                        (Some (match grp with Some (ga, _) => ga | None => 0 end,
                               (fsize f, o, impl_enc v (fd_ty f) y) :: gitems grp))
                      = Ok (somes (concat bs ++ a ++ B')) \/ defers f = false).
      { destruct (defers f) eqn:Hd; [left|right; reflexivity].
        rewrite (IH' _ (bs ++ [a])).
        - rewrite concat_app. cbn [concat]. rewrite app_nil_r, <- app_assoc. reflexivity.
        - cbn [gitems rev]. apply Forall2_app; [exact HG|]. constructor; [exact Hcur|constructor].
        - cbn [gitems rev]. apply (mode_push _ _ f _ o _ y _ a); assumption. }
      destruct (deferrable f) as [al|] eqn:Ed.
      * assert (Hd : defers f = true) by (unfold defers; rewrite Ed; reflexivity).
        destruct Hpush as [Hpush|Hc]; [|congruence].
        destruct grp as [[ga items]|].
        -- destruct (ga =? al); [exact Hpush|exact Hfl].
        -- cbn [gitems] in Hpush.
           assert (bs = []) by (cbn [gitems rev] in HG; inversion HG; reflexivity). subst bs.
           cbn [gitems rev app] in *.
           rewrite (IH' (Some (al, [(fsize f, o, impl_enc v (fd_ty f) y)])) [a]).
           ++ cbn [concat app]. rewrite app_nil_r. reflexivity.
           ++ cbn [gitems rev app]. constructor; [exact Hcur|constructor].
           ++ cbn [gitems rev app]. apply (mode_push [] [] f _ o _ y _ a); assumption.
      * destruct grp as [[ga items]|]; exact Hfl.
    + (* not full range: never deferred *)
      rewrite Hflush. rewrite (cur_ok f y a HP1 HF1 Hh1 Hi Ha). rewrite Hrest. cbn [bind].
      rewrite !somes_app. reflexivity.
Qed.
End FW.

(* facts about deferrable fields read back from the aggregate's image *)
Lemma FFs_intro v M fs :
  Forall (fhyp v) fs -> Forall (fun f => defers f = true -> packed v (fd_ty f) = true) fs ->
  forall offs xs its,
  hflds has_ty fs xs = true -> mitems mem fs offs xs = Some its ->
  Forall (fun p => rd M (N.to_nat (it_off p)) (length (it_img p)) = it_img p) its ->
  FFs v M fs offs xs.
Proof.
  induction fs as [|f fs IH]; intros HF HD offs xs its Hh Hi HR; [destruct offs, xs; exact I|].
  destruct offs as [|o ro]; [exact I|]. destruct xs as [|y ry]; [exact I|].
  inversion HF as [|? ? HF1 HF2]; subst. inversion HD as [|? ? HD1 HD2]; subst.
  cbn [hflds] in Hh. apply andb_true_iff in Hh as [Hh1 Hh2].
  cbn [mitems] in Hi. cbn [FFs]. destruct (is_removed f) eqn:Er.
  - split; [|apply (IH HF2 HD2 ro ry its Hh2 Hi HR)].
    intros Hd. apply defers_props in Hd as (_ & Hd & _). congruence.
  - destruct (mem (fd_ty f) y) as [m|] eqn:Hm; [|discriminate].
    destruct (mitems mem fs ro ry) as [r|] eqn:Hr; [|discriminate].
    inversion Hi; subst its. inversion HR as [|? ? HR1 HR2]; subst.
    split; [|apply (IH HF2 HD2 ro ry r Hh2 Hr HR2)].
    intros Hd b Hb. specialize (HD1 Hd).
    destruct HF1 as (Hwf & Hz & Hrg & Hwl & Hnm).
    assert (Hwt : wf_ty (fd_ty f) = true).
    { unfold wf_fd in Hwf. apply andb_true_iff in Hwf as [Hwf _]. apply andb_true_iff in Hwf as [Hwf _]. exact Hwf. }
    unfold hf in Hh1. rewrite Er in Hh1. apply andb_true_iff in Hh1 as [Hh1 _].
    pose proof (packed_sound v _ y b HD1 Hwt Hz Hwl Hnm Hh1 Hb) as Hm'.
    rewrite Hm in Hm'. inversion Hm'; subst m.
    pose proof (mem_length_packed v _ y _ HD1 Hwl Hnm Hh1 Hm) as Hlm.
    unfold it_off, it_img in HR1. cbn [fst snd] in HR1.
    unfold RB, fsize. rewrite Er. rewrite somes_length in Hlm. split; [exact Hlm|].
    rewrite <- Hlm. rewrite somes_length in HR1. exact HR1.
Qed.

Lemma itup_ok v ts :
  Forall (IMPL v) ts -> forallb wf_ty ts = true -> forallb empty_struct_zst ts = true ->
  forallb (regions_ok v) ts = true -> forallb wf_layout ts = true -> forallb no_mixed_enum ts = true ->
  forall xs B, htup has_ty ts xs = true -> etup (enc v) ts xs = Ok B ->
  itup (impl_enc v) ts xs = Ok (somes B).
Proof.
  induction 1 as [|t ts Ht _ IH]; intros Hwt Hz Hrg Hwl Hnm [|y ry] B Hh He; cbn [htup] in Hh; try discriminate.
  - cbn [etup] in He. inversion He; reflexivity.
  - cbn [forallb] in *.
    apply andb_true_iff in Hwt as [Hwt1 Hwt2]. apply andb_true_iff in Hz as [Hz1 Hz2].
    apply andb_true_iff in Hrg as [Hrg1 Hrg2].
    apply andb_true_iff in Hwl as [Hwl1 Hwl2]. apply andb_true_iff in Hnm as [Hnm1 Hnm2].
    apply andb_true_iff in Hh as [Hh1 Hh2].
    cbn [etup] in He. apply bind_ok in He as (a & Ha & He). apply bind_ok in He as (B' & HB' & He).
    inversion He; subst. cbn [itup].
    rewrite (Ht y a Hwt1 Hz1 Hrg1 Hwl1 Hnm1 Hh1 Ha). rewrite (IH Hwt2 Hz2 Hrg2 Hwl2 Hnm2 ry B' Hh2 HB').
    cbn [bind]. rewrite somes_app. reflexivity.
Qed.

Lemma last_indep {A} (l : list A) a d d' : last (a :: l) d = last (a :: l) d'.
Proof.
  revert a; induction l as [|x l IH]; intros a; [reflexivity|].
  change (last (a :: x :: l) d) with (last (x :: l) d).
  change (last (a :: x :: l) d') with (last (x :: l) d'). apply IH.
Qed.

Lemma last_map {A B} (g : A -> B) l a d : last (map g (a :: l)) d = g (last (a :: l) a).
Proof.
  revert a; induction l as [|x l IH]; intros a; [reflexivity|].
  change (last (map g (a :: x :: l)) d) with (last (map g (x :: l)) d).
  change (last (a :: x :: l) a) with (last (x :: l) a).
  rewrite IH. f_equal. apply last_indep.
Qed.

Lemma slice_all m total : length m = N.to_nat total -> slice m 0 total = m.
Proof.
  intros H. unfold slice. change (N.to_nat 0) with 0%nat. rewrite Nat.sub_0_r. cbn [skipn].
  apply firstn_all2. lia.
Qed.

Lemma slice_tail (a b : img) w total :
  length a = N.to_nat w -> (length a + length b)%nat = N.to_nat total -> slice (a ++ b) w total = b.
Proof.
  intros H1 H2. unfold slice. rewrite skipn_app, skipn_all2 by lia.
  replace (N.to_nat w - length a)%nat with 0%nat by lia. cbn [skipn app]. apply firstn_all2. lia.
Qed.

Lemma whole_region_chain m total p f0 fs o0 ro :
  variant_chain total p (o0 :: ro) (map fsize (f0 :: fs)) = true ->
  whole_region (Some m) (f0 :: fs) (o0 :: ro) = Ok (slice m p total).
Proof.
  intros H.
  destruct (variant_chain_ends total (o0 :: ro) (map fsize (f0 :: fs)) p o0 ro (fsize f0) (map fsize fs)
              eq_refl eq_refl H) as [E1 E2].
  rewrite last_map in E2. unfold whole_region. rewrite E2, E1. reflexivity.
Qed.

Lemma wf_fd_ty f : wf_fd f = true -> wf_ty (fd_ty f) = true.
Proof.
  unfold wf_fd. intros H. apply andb_true_iff in H as [H _]. apply andb_true_iff in H as [H _]. exact H.
Qed.

Lemma impl_prim v t x :
  match t with
  | TInt _ | TBool | TChar | TF32 | TF64 | TUnit | TString => True
  | _ => False
  end -> impl_enc v t x = lift_enc (enc v t x).
Proof. destruct t; intros H; try contradiction; reflexivity. Qed.

Lemma Ok_inj {A} (a b : A) : Ok a = Ok b -> a = b.
Proof. intros H; inversion H; reflexivity. Qed.

Lemma impl_all v t : IMPL v t.
Proof.
  induction t using ty_ind'; intros x b Hwt Hz Hrg Hwl Hnm Hh He.
  - rewrite impl_prim by exact I. rewrite He. reflexivity.
  - rewrite impl_prim by exact I. rewrite He. reflexivity.
  - rewrite impl_prim by exact I. rewrite He. reflexivity.
  - rewrite impl_prim by exact I. rewrite He. reflexivity.
  - rewrite impl_prim by exact I. rewrite He. reflexivity.
  - rewrite impl_prim by exact I. rewrite He. reflexivity.
  - rewrite impl_prim by exact I. rewrite He. reflexivity.
  - (* TVec *)
    destruct x; try discriminate. rewrite has_ty_TVec in Hh.
    apply andb_true_iff in Hh as [_ H2]. rewrite forallb_forall in H2.
    rewrite enc_TVec in He. apply bind_ok in He as (body & Hbody & He). apply Ok_inj in He. subst b.
    rewrite impl_TVec. destruct (packed v t) eqn:Hpk.
    + assert (Hc : concat_opt (map (mem t) l) = Some (somes body)).
      { apply (concat_map_sound (enc v t)); [|exact Hbody].
        intros y Hy b' Hb'. apply (packed_sound v t y b' Hpk Hwt Hz Hwl Hnm (H2 y Hy) Hb'). }
      rewrite Hc. cbn [bind]. rewrite somes_app. reflexivity.
    + assert (Hc : concat_img (map (impl_enc v t) l) = Ok (somes body)).
      { apply (concat_img_sound (enc v t)); [|exact Hbody].
        intros y Hy b' Hb'. apply (IHt y b' Hwt Hz Hrg Hwl Hnm (H2 y Hy) Hb'). }
      rewrite Hc. cbn [bind]. rewrite somes_app. reflexivity.
  - (* TSeq *)
    destruct x; try discriminate. rewrite has_ty_TSeq in Hh.
    apply andb_true_iff in Hh as [_ H2]. rewrite forallb_forall in H2.
    rewrite enc_TSeq in He. apply bind_ok in He as (body & Hbody & He). apply Ok_inj in He. subst b.
    rewrite impl_TSeq.
    assert (Hc : concat_img (map (impl_enc v t) l) = Ok (somes body)).
    { apply (concat_img_sound (enc v t)); [|exact Hbody].
      intros y Hy b' Hb'. apply (IHt y b' Hwt Hz Hrg Hwl Hnm (H2 y Hy) Hb'). }
    rewrite Hc. cbn [bind]. rewrite somes_app. reflexivity.
  - (* TArray *)
    destruct x; try discriminate. rewrite has_ty_TArray in Hh.
    apply andb_true_iff in Hh as [H1 H2]. apply N.eqb_eq in H1. rewrite forallb_forall in H2.
    rewrite enc_TArray in He.
    change (wf_ty (TArray t n)) with (wf_ty t && (n <? 100000)) in Hwt.
    apply andb_true_iff in Hwt as [Hwt _].
    rewrite impl_TArray. destruct (N.eqb_spec n 0) as [E|NE].
    + rewrite E in H1. destruct l; [|cbn [length] in H1; lia]. cbn [map concat_res] in He.
      inversion He; reflexivity.
    + destruct (packed v t) eqn:Hpk.
      * assert (Hc : concat_opt (map (mem t) l) = Some (somes b)).
        { apply (concat_map_sound (enc v t)); [|exact He].
          intros y Hy b' Hb'. apply (packed_sound v t y b' Hpk Hwt Hz Hwl Hnm (H2 y Hy) Hb'). }
        rewrite Hc. reflexivity.
      * apply (concat_img_sound (enc v t) (impl_enc v t) l); [|exact He].
        intros y Hy b' Hb'. apply (IHt y b' Hwt Hz Hrg Hwl Hnm (H2 y Hy) Hb').
  - (* TOption *)
    destruct x; try discriminate.
    + rewrite enc_TOption_none in He. inversion He; reflexivity.
    + rewrite has_ty_TOption_some in Hh. rewrite enc_TOption_some in He.
      apply bind_ok in He as (a & Ha & He). apply Ok_inj in He. subst b.
      rewrite impl_TOption_some, (IHt x a Hwt Hz Hrg Hwl Hnm Hh Ha). reflexivity.
  - (* TResult *)
    change (wf_ty (TResult t1 t2)) with (wf_ty t1 && wf_ty t2) in Hwt.
    change (empty_struct_zst (TResult t1 t2)) with (empty_struct_zst t1 && empty_struct_zst t2) in Hz.
    change (regions_ok v (TResult t1 t2)) with (regions_ok v t1 && regions_ok v t2) in Hrg.
    change (wf_layout (TResult t1 t2)) with (wf_layout t1 && wf_layout t2) in Hwl.
    change (no_mixed_enum (TResult t1 t2)) with (no_mixed_enum t1 && no_mixed_enum t2) in Hnm.
    apply andb_true_iff in Hwt as [Hwt1 Hwt2]. apply andb_true_iff in Hz as [Hz1 Hz2].
    apply andb_true_iff in Hrg as [Hrg1 Hrg2].
    apply andb_true_iff in Hwl as [Hwl1 Hwl2]. apply andb_true_iff in Hnm as [Hnm1 Hnm2].
    destruct x; try discriminate.
    + rewrite has_ty_TResult_ok in Hh. rewrite enc_TResult_ok in He.
      apply bind_ok in He as (a & Ha & He). apply Ok_inj in He. subst b.
      rewrite impl_TResult_ok, (IHt1 x a Hwt1 Hz1 Hrg1 Hwl1 Hnm1 Hh Ha). reflexivity.
    + rewrite has_ty_TResult_err in Hh. rewrite enc_TResult_err in He.
      apply bind_ok in He as (a & Ha & He). apply Ok_inj in He. subst b.
      rewrite impl_TResult_err, (IHt2 x a Hwt2 Hz2 Hrg2 Hwl2 Hnm2 Hh Ha). reflexivity.
  - (* TBox *)
    rewrite has_ty_TBox in Hh. rewrite enc_TBox in He. rewrite impl_TBox.
    apply (IHt x b Hwt Hz Hrg Hwl Hnm Hh He).
  - (* TCell *)
    rewrite has_ty_TCell in Hh. rewrite enc_TCell in He. rewrite impl_TCell.
    apply (IHt x b Hwt Hz Hrg Hwl Hnm Hh He).
  - (* TTuple *)
    destruct x; try discriminate. rewrite has_ty_TTuple in Hh. rewrite enc_TTuple in He.
    rewrite wf_ty_TTuple in Hwt. rewrite zst_TTuple in Hz. rewrite regions_TTuple in Hrg.
    rewrite wf_layout_TTuple in Hwl. rewrite no_mixed_TTuple in Hnm.
    apply andb_true_iff in Hwt as [Hwt _]. apply andb_true_iff in Hwt as [Hwt _].
    apply andb_true_iff in Hwl as [Hwl _]. apply andb_true_iff in Hwl as [Hwl _].
    rewrite impl_TTuple. apply (itup_ok v ts H Hwt Hz Hrg Hwl Hnm l0 b Hh He).
  - (* TStruct *)
    destruct x; try discriminate.
    pose proof Hh as Hh0. pose proof He as He0.
    rewrite has_ty_TStruct in Hh. rewrite enc_TStruct in He.
    pose proof Hwt as Hwt'. rewrite wf_ty_TStruct in Hwt'.
    pose proof Hz as Hz'. rewrite zst_TStruct in Hz'. apply andb_true_iff in Hz' as [Hz' _].
    pose proof Hrg as Hrg'. rewrite regions_TStruct in Hrg'. apply rfield_split in Hrg' as [Hrg' HD].
    pose proof Hwl as Hwl'. rewrite wf_layout_TStruct in Hwl'.
    apply andb_true_iff in Hwl' as [Hwl' Hr]. apply andb_true_iff in Hwl' as [Hwl' Hlen].
    apply Nat.eqb_eq in Hlen.
    pose proof Hnm as Hnm'. rewrite no_mixed_TStruct in Hnm'.
    rewrite impl_TStruct. destruct (packed v (TStruct l fs)) eqn:Hpk.
    + (* packed: whole-struct raw write *)
      pose proof (packed_sound v _ _ b Hpk Hwt Hz Hwl Hnm Hh0 He0) as Hm.
      pose proof (mem_length_packed v _ _ _ Hpk Hwl Hnm Hh0 Hm) as Hlm. cbn [size_of] in Hlm.
      rewrite Hm. destruct fs as [|f0 fs].
      * destruct l0; cbn [hflds] in Hh; try discriminate. cbn [eflds] in He. inversion He; reflexivity.
      * destruct (l_offs l) as [|o0 ro] eqn:Eo; [cbn [length] in Hlen; discriminate|].
        rewrite packed_TStruct in Hpk.
        apply andb_true_iff in Hpk as [Hpk _]. apply andb_true_iff in Hpk as [Hpk _].
        apply andb_true_iff in Hpk as [_ Hchain]. rewrite Eo in Hchain.
        destruct (struct_chain_variant _ _ _ _ Hchain) as [Hvc _].
        rewrite (whole_region_chain _ _ _ _ _ _ _ Hvc). rewrite slice_all by exact Hlm. reflexivity.
    + (* field-wise with deferred regions *)
      assert (HS : Pfs SHAPE fs) by (apply Forall_forall; intros; apply shape_all).
      destruct (mflds_shape fs (l_size l) 0 HS Hwl' (l_offs l) l0 (repeat None (N.to_nat (l_size l)))
                  Hlen Hh Hr (repeat_length _ _)) as (its & Hi & Hm & Hl & Hinb & Hpw).
      pose proof (blits_readback (l_size l) (repeat None (N.to_nat (l_size l))) its (repeat_length _ _) Hinb Hpw) as HRB.
      pose proof (fhyp_intro v fs Hwt' Hz' Hrg' Hwl' Hnm') as HF.
      rewrite mem_TStruct, Hm.
      rewrite (fw_ok v _ fs H HF (l_offs l) l0 None [] b Hlen Hh He); [reflexivity|constructor|].
      left. eexists. split; [reflexivity|]. split; [constructor|].
      apply (FFs_intro v _ fs HF HD (l_offs l) l0 its Hh Hi HRB).
  - (* TEnum *)
    destruct x; try discriminate.
    pose proof Hh as Hh0. rewrite has_ty_TEnum in Hh. apply andb_true_iff in Hh as [_ Hh].
    pose proof He as He0. rewrite enc_TEnum in He. rewrite pickg_nth in Hh, He.
    destruct (nth_error vs (N.to_nat idx)) as [vd|] eqn:Hn; [|discriminate].
    pose proof (nth_error_In _ _ Hn) as Hin.
    pose proof Hwl as Hwl'. rewrite wf_layout_TEnum in Hwl'.
    apply andb_true_iff in Hwl' as [Hwl' Hrr]. apply andb_true_iff in Hwl' as [Hwl' Hlen].
    apply Nat.eqb_eq in Hlen. rewrite forallb_forall in Hwl'. specialize (Hwl' vd Hin).
    destruct (nth_error_same_length vs vo _ vd Hlen Hn) as (offs & Ho).
    pose proof (nth_error_combine _ _ _ _ _ Ho Hn) as Hcomb.
    pose proof Hwt as Hwt'. rewrite wf_ty_TEnum in Hwt'. apply andb_true_iff in Hwt' as [_ Hwt'].
    rewrite forallb_forall in Hwt'. specialize (Hwt' vd Hin). apply andb_true_iff in Hwt' as [Hwt' _].
    pose proof Hz as Hz'. rewrite zst_TEnum in Hz'. rewrite forallb_forall in Hz'. specialize (Hz' vd Hin).
    pose proof Hnm as Hnm'. rewrite no_mixed_TEnum in Hnm'. apply andb_true_iff in Hnm' as [Hnm' _].
    rewrite forallb_forall in Hnm'. specialize (Hnm' vd Hin).
    unfold Pvs in H. rewrite Forall_forall in H. specialize (H vd Hin).
    rewrite impl_TEnum, pick3_nth, Hn, Ho.
    destruct (in_range (vd_from vd) (vd_to vd) v); [|discriminate].
    apply bind_ok in He as (B & HB & He). apply Ok_inj in He. subst b.
    match goal with |- (let* b := ?inner in _) = _ => assert (Hinner : inner = Ok (somes B)) end.
    { destruct (packed v (TEnum repr l vo vs)) eqn:Hpk.
      - (* packed: raw write of the variant's field region *)
        destruct repr as [w|]; [|discriminate].
        pose proof (packed_sound v _ _ _ Hpk Hwt Hz Hwl Hnm Hh0 He0) as Hm.
        pose proof (mem_length_packed v _ _ _ Hpk Hwl Hnm Hh0 Hm) as Hlm. cbn [size_of] in Hlm.
        rewrite Hm. rewrite packed_TEnum_some in Hpk.
        apply andb_true_iff in Hpk as [Hpk _]. apply andb_true_iff in Hpk as [Hpk _].
        apply andb_true_iff in Hpk as [_ Hvc].
        pose proof (vchains_nth _ _ _ _ _ _ _ Hvc Ho Hn) as Hch.
        apply andb_true_iff in Hrr as [_ Hrr]. rewrite forallb_forall in Hrr. specialize (Hrr _ Hcomb).
        cbn [fst snd] in Hrr. apply andb_true_iff in Hrr as [Hl2 _]. apply Nat.eqb_eq in Hl2.
        destruct (vd_fields vd) as [|f0 fs'] eqn:Ef.
        + destruct l0; cbn [hflds] in Hh; try discriminate. cbn [eflds] in HB. inversion HB; reflexivity.
        + destruct Hch as [Hch|Hch]; [discriminate|].
          destruct offs as [|o0 ro]; [cbn [length] in Hl2; discriminate|].
          rewrite (whole_region_chain _ _ _ _ _ _ _ Hch). rewrite somes_app in *.
          rewrite app_length in Hlm.
          rewrite slice_tail; [reflexivity| |exact Hlm].
          rewrite somes_length, le_length. reflexivity.
      - (* field-wise; deferred regions read the modelled image back *)
        rewrite regions_TEnum in Hrg. rewrite forallb_forall in Hrg. specialize (Hrg vd Hin).
        apply rfield_split in Hrg as [Hrg' HD].
        assert (HS : Pfs SHAPE (vd_fields vd)) by (apply Forall_forall; intros; apply shape_all).
        pose proof (fhyp_intro v _ Hwt' Hz' Hrg' Hwl' Hnm') as HF.
        destruct repr as [w|].
        + apply andb_true_iff in Hrr as [Hw Hrr]. rewrite forallb_forall in Hrr. specialize (Hrr _ Hcomb).
          cbn [fst snd] in Hrr. apply andb_true_iff in Hrr as [Hl2 Hr]. apply Nat.eqb_eq in Hl2.
          assert (Hwle : w <= l_size l).
          { destruct (forallb fieldless vs); [apply N.eqb_eq in Hw; lia|apply N.leb_le in Hw; exact Hw]. }
          assert (Hbuf : length (bufset (repeat None (N.to_nat (l_size l))) 0 (somes (le (N.to_nat w) idx)))
                         = N.to_nat (l_size l)).
          { rewrite bufset_length; [apply repeat_length|]. rewrite somes_length, le_length, repeat_length. lia. }
          destruct (mflds_shape (vd_fields vd) (l_size l) w HS Hwl' offs l0 _ Hl2 Hh Hr Hbuf)
            as (its & Hi & Hm & Hl & Hinb & Hpw).
          pose proof (blits_readback (l_size l) _ its Hbuf Hinb Hpw) as HRB.
          rewrite mem_TEnum_some, pick3_nth, Hn, Ho, Hm.
          rewrite (fw_ok v _ _ H HF offs l0 None [] B Hl2 Hh HB); [reflexivity|constructor|].
          left. eexists. split; [reflexivity|]. split; [constructor|].
          apply (FFs_intro v _ _ HF HD offs l0 its Hh Hi HRB).
        + rewrite forallb_forall in Hrr. specialize (Hrr _ Hcomb).
          cbn [fst snd] in Hrr. apply andb_true_iff in Hrr as [Hl2 Hr]. apply Nat.eqb_eq in Hl2.
          destruct (mflds_shape (vd_fields vd) (l_size l) 0 HS Hwl' offs l0
                      (repeat None (N.to_nat (l_size l))) Hl2 Hh Hr (repeat_length _ _))
            as (its & Hi & Hm & Hl & Hinb & Hpw).
          pose proof (blits_readback (l_size l) (repeat None (N.to_nat (l_size l))) its
                        (repeat_length _ _) Hinb Hpw) as HRB.
          rewrite mem_TEnum_none, pick3_nth, Hn, Ho, Hm.
          rewrite (fw_ok v _ _ H HF offs l0 None [] B Hl2 Hh HB); [reflexivity|constructor|].
          left. eexists. split; [reflexivity|]. split; [constructor|].
          apply (FFs_intro v _ _ HF HD offs l0 its Hh Hi HRB). }
    rewrite Hinner. cbn [bind]. rewrite somes_app. reflexivity.
Qed.

(* Counterexamples that force the three extra premises of impl_enc_is_enc. Each violates exactly
   one of them and satisfies every premise of the statement as originally proposed. *)
Definition prem5 (v : N) (t : ty) :=
  (wf_ty t, empty_struct_zst t, regions_ok v t, wf_layout t, no_mixed_enum t).

(* wf_ty: an AbiRemoved field with a full version range in a non-packed struct *)
Lemma impl_enc_counterexample_wf_ty :
  let t := TStruct (Lay 24 8 [0; 0] false)
             [FD TString 0 None FNormal VUnit; FD (TInt U8) 0 None FAbiRemoved (VInt 3)] in
  let x := VRec [VStr []; VUnit] in
  prem5 0 t = (false, true, true, true, true) /\ has_ty t x = true
  /\ enc 0 t x = Ok [0; 0; 0; 0; 0; 0; 0; 0; 3] /\ impl_enc 0 t x = Err EOther.
Proof. repeat split; vm_compute; reflexivity. Qed.

(* empty_struct_zst: a Vec of field-less structs with a non-zero size *)
Lemma impl_enc_counterexample_empty_struct :
  let t := TVec (TStruct (Lay 1 1 [] false) []) in
  let x := VSeq [VRec []] in
  prem5 0 t = (true, false, true, true, true) /\ has_ty t x = true
  /\ enc 0 t x = Ok (enc_usize 1) /\ impl_enc 0 t x = Ok (somes (enc_usize 1) ++ [None]).
Proof. repeat split; vm_compute; reflexivity. Qed.

(* regions_ok: a same-size tuple whose layout is not in declaration order joins a raw region *)
Lemma impl_enc_counterexample_tuple_region :
  let tw := TTuple (Lay 2 1 [1; 0] false) [TInt U8; TInt U8] in
  let t := TStruct (Lay 3 1 [0; 1] false)
             [FD (TInt U8) 0 None FNormal VUnit; FD tw 0 None FNormal VUnit] in
  let x := VRec [VInt 7; VRec [VInt 1; VInt 2]] in
  prem5 0 t = (true, true, false, true, true) /\ has_ty t x = true
  /\ enc 0 t x = Ok [7; 1; 2] /\ impl_enc 0 t x = Ok [Some 7; Some 2; Some 1].
Proof. repeat split; vm_compute; reflexivity. Qed.

Lemma impl_enc_is_enc_unrestricted_false :
  ~ (forall v t x b, wf_layout t = true -> no_mixed_enum t = true ->
     has_ty t x = true -> enc v t x = Ok b -> impl_enc v t x = Ok (somes b)).
Proof.
  intros H. destruct impl_enc_counterexample_tuple_region as (_ & Hh & He & Hi).
  pose proof (fun A B => H _ _ _ _ A B Hh He) as H'. rewrite Hi in H'.
  enough (K : Ok [Some 7; Some 2; Some 1] = Ok (somes [7; 1; 2])) by discriminate K.
  apply H'; vm_compute; reflexivity.
Qed.

(* 4. transparency: the serializer as implemented writes exactly the documented bytes *)
Theorem impl_enc_is_enc : forall v t x b,
  wf_ty t = true -> empty_struct_zst t = true -> regions_ok v t = true ->
  wf_layout t = true -> no_mixed_enum t = true ->
  has_ty t x = true -> enc v t x = Ok b -> impl_enc v t x = Ok (somes b).
Proof. intros v t. apply impl_all. Qed.

Print Assumptions packed_sound_refuted_mixed_enum.
Print Assumptions mem_length_packed.
Print Assumptions packed_version_gate.
Print Assumptions packed_version_gate_counterexample.
Print Assumptions packed_version_gate_unrestricted_false.
Print Assumptions packed_sound.
Print Assumptions packed_sound_counterexample_closed_normal.
Print Assumptions packed_sound_counterexample_empty_struct.
Print Assumptions packed_sound_unrestricted_false.
Print Assumptions impl_enc_is_enc.
Print Assumptions impl_enc_counterexample_wf_ty.
Print Assumptions impl_enc_counterexample_empty_struct.
Print Assumptions impl_enc_counterexample_tuple_region.
Print Assumptions impl_enc_is_enc_unrestricted_false.

Check packed_sound_refuted_mixed_enum.
Check mem_length_packed.
Check packed_version_gate.
Check packed_sound.
Check impl_enc_is_enc.
