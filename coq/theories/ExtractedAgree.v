(* ExtractedAgree.v — the tables regenerated from /repo's sources on every run
   (coq/extracted/Extracted.v, written by vp/extract.py) equal the constants the model uses.
   If a tag, gate, limit or threshold changes in the code, this file stops compiling. *)
From Coq Require Import String Ascii.
From SF Require Import Bytes Schema.
From SFX Require Import Extracted.
Open Scope string_scope.

Fixpoint lookup_sn (k : string) (l : list (string * N)) : option N :=
  match l with
  | [] => None
  | (k', v) :: r => if String.eqb k k' then Some v else lookup_sn k r
  end.

Fixpoint insert_ns (p : N * string) (l : list (N * string)) : list (N * string) :=
  match l with
  | [] => [p]
  | q :: r => if (fst p <=? fst q)%N then p :: l else q :: insert_ns p r
  end.
Definition sort_ns (l : list (N * string)) : list (N * string) := fold_right insert_ns [] l.
Definition swap_sn (l : list (string * N)) : list (N * string) := map (fun p => (snd p, fst p)) l.

Fixpoint bytes_of_string (s : string) : bytes :=
  match s with
  | EmptyString => []
  | String a r => N_of_ascii a :: bytes_of_string r
  end.

Definition ctor_name (s : schema) : string :=
  match s with
  | SStruct _ _ _ _ => "Struct" | SEnum _ _ _ _ _ _ => "Enum" | SPrim _ => "Primitive"
  | SVector _ _ => "Vector" | SArray _ _ => "Array" | SOption _ => "SchemaOption"
  | SUndefined => "Undefined" | SZeroSize => "ZeroSize" | SCustom _ => "Custom"
  | SBoxed _ => "Boxed" | SSlice _ => "Slice" | SStr => "Str" | SReference _ => "Reference"
  | STrait _ _ => "Trait" | SFnClosure _ _ => "FnClosure" | SRecursion _ => "Recursion"
  | SStdIoError => "StdIoError" | SFuture _ _ _ _ => "Future" | SUninitSlice => "UninitSlice"
  | SUtcTimestamp => "UtcTimestamp"
  end.

Definition prim_name (p : prim) : string :=
  match p with
  | Pi8 => "i8" | Pu8 => "u8" | Pi16 => "i16" | Pu16 => "u16" | Pi32 => "i32" | Pu32 => "u32"
  | Pi64 => "i64" | Pu64 => "u64" | Pstring _ => "string" | Pf32 => "f32" | Pf64 => "f64"
  | Pbool => "bool" | Pcanary1 => "canary1" | Pu128 => "u128" | Pi128 => "i128" | Pchar => "char"
  end.

Definition vl_name (l : vlayout) : string :=
  match l with
  | VLUnknown => "Unknown" | VL1 => "DataCapacityLength" | VL2 => "DataLengthCapacity"
  | VL3 => "CapacityDataLength" | VL4 => "LengthDataCapacity" | VL5 => "CapacityLengthData"
  | VL6 => "LengthCapacityData" | VL7 => "LengthData" | VL8 => "DataLength"
  end.

Definition recv_name (r : receiver) : string :=
  match r with RShared => "Shared" | RMut => "Mut" | RPinMut => "PinMut" end.

(* the writer's first byte is the extracted tag of the constructor *)
Lemma schema_ser_tag_agree : forall fv s,
  option_map (fun t => [t]) (lookup_sn (ctor_name s) x_schema_ser_tags) = Some (firstn 1 (ser fv s)).
Proof. intros fv s; destruct s; reflexivity. Qed.

(* the reader's tag table is the inverse of the writer's (as sets) *)
Lemma schema_de_tags_inverse : sort_ns x_schema_de_tags = sort_ns (swap_sn x_schema_ser_tags).
Proof. vm_compute. reflexivity. Qed.

Lemma prim_ser_tag_agree : forall p, lookup_sn (prim_name p) x_prim_ser_tags = Some (prim_tag p).
Proof. intros p; destruct p; reflexivity. Qed.

Lemma prim_de_tags_inverse : sort_ns x_prim_de_tags = sort_ns (swap_sn x_prim_ser_tags).
Proof. vm_compute. reflexivity. Qed.

(* `layout as u8` is the position in the enum declaration *)
Lemma vlayout_cast_agree : forall l, nth_error x_vlayout_variants (N.to_nat (vlayout_tag l)) = Some (vl_name l).
Proof. intros l; destruct l; reflexivity. Qed.

Lemma vlayout_de_agree :
  forallb (fun p : N * string => String.eqb (vl_name (vlayout_of_tag (fst p))) (snd p)) x_vlayout_de_tags = true
  /\ List.length x_vlayout_de_tags = 8%nat.
Proof. split; vm_compute; reflexivity. Qed.

Lemma receiver_ser_agree : forall r, lookup_sn (recv_name r) x_receiver_ser_tags = Some (receiver_tag r).
Proof. intros r; destruct r; reflexivity. Qed.

Lemma receiver_de_inverse : sort_ns x_receiver_de_tags = sort_ns (swap_sn x_receiver_ser_tags).
Proof. vm_compute. reflexivity. Qed.

(* version gates of the schema codec, as the model has them:
   string/vector layout and all memory annotations gated on [> 0], receiver/async on [>= 2] *)
Definition schema_gates_agree_stmt : Prop :=
  x_schema_gates = [("ser>", 0%N); ("de>", 0%N)]
  /\ x_prim_gates = [("ser>", 0%N); ("de>", 0%N)]
  /\ x_minfo_gates = [("ser>=", 2%N); ("de>=", 2%N)]
  /\ x_component_gates = [("DeField>", 0%N); ("DeVariant>", 0%N); ("DeSchemaStruct>", 0%N);
                          ("DeSchemaStruct>", 0%N); ("DeSchemaEnum>", 0%N)].
Lemma gates_agree : schema_gates_agree_stmt.
Proof. unfold schema_gates_agree_stmt. repeat split; reflexivity. Qed.

Lemma suffixes_agree : map bytes_of_string x_trait_suffixes = [sfx_sync; sfx_send].
Proof. vm_compute. reflexivity. Qed.

Lemma limits_agree :
  x_string_limit = STRING_LIMIT /\ x_vec_limit = VEC_LIMIT /\ x_bool_true = 1%N /\ x_lib_version = 2%N.
Proof. repeat split; reflexivity. Qed.

Definition schema_tables_agree_stmt : Prop :=
  (forall fv s, option_map (fun t => [t]) (lookup_sn (ctor_name s) x_schema_ser_tags) = Some (firstn 1 (ser fv s)))
  /\ sort_ns x_schema_de_tags = sort_ns (swap_sn x_schema_ser_tags)
  /\ (forall p, lookup_sn (prim_name p) x_prim_ser_tags = Some (prim_tag p))
  /\ sort_ns x_prim_de_tags = sort_ns (swap_sn x_prim_ser_tags)
  /\ (forall l, nth_error x_vlayout_variants (N.to_nat (vlayout_tag l)) = Some (vl_name l))
  /\ (forallb (fun p : N * string => String.eqb (vl_name (vlayout_of_tag (fst p))) (snd p)) x_vlayout_de_tags = true
      /\ List.length x_vlayout_de_tags = 8%nat)
  /\ (forall r, lookup_sn (recv_name r) x_receiver_ser_tags = Some (receiver_tag r))
  /\ sort_ns x_receiver_de_tags = sort_ns (swap_sn x_receiver_ser_tags)
  /\ map bytes_of_string x_trait_suffixes = [sfx_sync; sfx_send]
  /\ (x_string_limit = STRING_LIMIT /\ x_vec_limit = VEC_LIMIT /\ x_bool_true = 1%N /\ x_lib_version = 2%N).

Lemma schema_tables_agree : schema_tables_agree_stmt.
Proof.
  unfold schema_tables_agree_stmt.
  repeat (split; [first [exact schema_ser_tag_agree | exact schema_de_tags_inverse | exact prim_ser_tag_agree
                        | exact prim_de_tags_inverse | exact vlayout_cast_agree | exact vlayout_de_agree
                        | exact receiver_ser_agree | exact receiver_de_inverse | exact suffixes_agree ]|]).
  exact limits_agree.
Qed.
